#!/bin/bash
# Property-preserving refactorings (selftest/benign/*.diff): no check may raise an alarm on them.
wt=${1:-/tmp/mt3}
for d in /verif/selftest/benign/*.diff; do
  n=$(basename $d .diff)
  git -C $wt checkout -q -- . ; git -C $wt apply $d || { echo "$n: patch does not apply"; continue; }
  for pid in $(cat /verif/selftest/benign/$n.checks); do
    CURIES_SRC=$wt/src VERIF_EVIDENCE_DIR=/verif/out/selftest-evidence timeout 1800 /venv/bin/python /verif/harness/vcheck check $pid > /tmp/benign.$$.log 2>&1
    echo "$n $pid rc=$? $(grep -m1 '^VIOLATION\|MACHINERY' /tmp/benign.$$.log | cut -c1-170)"
  done
  git -C $wt checkout -q -- .
done
rm -f /tmp/benign.$$.log
