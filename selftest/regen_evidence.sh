#!/bin/bash
# regenerate every evidence file with the quick tier on the current tree (run from /verif)
cd /verif
for p in C01 C02 C03 C04 C05 C06 C07 C08 C09 C10 C11 C12 C13 C14 C15 C16 C17 C18 C19 C20; do
  s=$(date +%s)
  VERIF_SEED=${VERIF_SEED:-0} /venv/bin/python harness/vcheck check $p --tier quick > out/regen.$p.log 2>&1
  echo "$p rc=$? $(( $(date +%s) - s ))s $(tail -1 out/regen.$p.log | cut -c1-120)"
done
