"""Create scratch worktrees (outside /repo and /verif) and prompt files for the sub-agents that seed breaking changes."""
import json, subprocess, os, sys
props = {json.loads(l)['id']: json.loads(l) for l in open('/verif/properties.jsonl')}
BASE = os.environ.get('WT_BASE', '/tmp/wt')
EXTRA = os.environ.get('PROMPT_EXTRA', '')
os.makedirs(BASE, exist_ok=True)
os.makedirs('/verif/out/agent_prompts', exist_ok=True)
TEMPLATE = open('/verif/selftest/agent_prompt.txt').read()
for pid in sys.argv[1:]:
    wt = f'{BASE}/{pid}'
    if not os.path.exists(wt):
        subprocess.run(['git', '-C', '/repo', 'worktree', 'add', '--detach', wt, 'HEAD', '-q'], check=True)
    p = props[pid]
    prompt = (TEMPLATE.replace('@WT@', wt).replace('@PID@', pid).replace('@TITLE@', p['title'])
              .replace('@STATEMENT@', p['statement']).replace('@QUANT@', p['quantifier']['text'])) + ('\n\n' + EXTRA if EXTRA else '')
    open(f'/verif/out/agent_prompts/{pid}.txt', 'w').write(prompt)
    print(pid, wt)
