#!/bin/bash
# usage: thorough_sweep.sh <pid> ...   -- the thorough check of each property, one line per run
export VERIF_EVIDENCE_DIR=${VERIF_EVIDENCE_DIR:-$PWD/out/sweep-evidence}
for p in "$@"; do
  s=$(date +%s)
  /venv/bin/python harness/vcheck check $p --tier thorough > out.sweep.$$.log 2>&1
  rc=$?
  echo "$p rc=$rc $(( $(date +%s) - s ))s $(grep -c '^VIOLATION' out.sweep.$$.log) violations $(grep -h 'MACHINERY' out.sweep.$$.log | head -1 | cut -c1-300)"
  if [ $rc -ne 0 ]; then grep -h '^VIOLATION\|MACHINERY' out.sweep.$$.log | head -3 | cut -c1-300; fi
done
rm -f out.sweep.$$.log
