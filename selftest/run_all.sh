#!/bin/bash
# usage: run_all.sh [-b <worktree base dir>] [-o <results jsonl>] <pid> ...
#   runs every <base>/<pid>/MUTANT* against the quick check of <pid>
base=/tmp/wt; out=/verif/out/mutants.jsonl
while getopts "b:o:" o; do case $o in b) base=$OPTARG;; o) out=$OPTARG;; esac; done
shift $((OPTIND-1))
for pid in "$@"; do
  for m in $base/$pid/MUTANT*; do
    [ -f $m/patch.diff ] || continue
    python3 /verif/selftest/run_mutant.py $base/$pid $m $pid >> $out 2>>/verif/out/mutants.err
  done
done
