#!/bin/bash
# usage: run_all.sh <pid> ...   -- run every /tmp/wt/<pid>/MUTANT* against the check of <pid>
for pid in "$@"; do
  for m in /tmp/wt/$pid/MUTANT*; do
    [ -f $m/patch.diff ] || continue
    python3 /verif/selftest/run_mutant.py /tmp/wt/$pid $m $pid >> /verif/out/mutants.jsonl 2>/verif/out/mutants.err
  done
done
