#!/usr/bin/env python3
"""Re-run every kept seeded change (seeded/<id>/patch.diff) against the checks that caught it, on the CURRENT harness.
usage: rerun_seeded.py <scratch worktree> <results.jsonl> [id-prefix ...]
A change that is no longer reported is a regression of the machinery (drivers changed, a behaviour is no longer selected)."""
import json
import os
import subprocess
import sys
import time

wt, results = sys.argv[1], sys.argv[2]
want = sys.argv[3:]
done = set()
if os.path.exists(results):
    for l in open(results):
        try:
            done.add(json.loads(l)["id"])
        except Exception:
            pass
for mid in sorted(os.listdir("/verif/seeded")):
    d = os.path.join("/verif/seeded", mid)
    if not os.path.isfile(os.path.join(d, "patch.diff")) or mid in done or (want and not any(mid.startswith(w) for w in want)):
        continue
    meta = json.load(open(os.path.join(d, "meta.json")))
    checks = meta.get("caught_by") or [meta["property"]]
    subprocess.run(["git", "checkout", "-q", "--", "."], cwd=wt)
    if subprocess.run(["git", "apply", os.path.join(d, "patch.diff")], cwd=wt).returncode:
        res = {"id": mid, "error": "patch does not apply"}
    else:
        res = {"id": mid, "checks": {}}
        for pid in checks[:1]:
            env = dict(os.environ, CURIES_SRC=f"{wt}/src", VERIF_EVIDENCE_DIR="/verif/out/selftest-evidence")
            t0 = time.time()
            p = subprocess.run(["/venv/bin/python", "/verif/harness/vcheck", "check", pid, "--tier", "quick"], cwd="/verif", env=env,
                               stdout=subprocess.PIPE, stderr=subprocess.STDOUT, text=True)
            res["checks"][pid] = {"rc": p.returncode, "wall": round(time.time() - t0, 1),
                                  "line": next((l[:200] for l in p.stdout.splitlines() if l.startswith(("VIOLATION", "MACHINERY"))), "")}
    subprocess.run(["git", "checkout", "-q", "--", "."], cwd=wt)
    with open(results, "a") as f:
        f.write(json.dumps(res) + "\n")
    print(json.dumps(res), flush=True)
