#!/venv/bin/python
"""Vacuity check of the model-checking step: each listed mutation of the OPERATIONAL specification
(the kind of mistake the code could make) must make TLC report the named declarative invariant as
violated on the quick model.  The specification is copied to a scratch directory first.
Run: /venv/bin/python selftest/spec_mutants.py [name ...]"""
import json
import os
import shutil
import sys
import tempfile

HERE = os.path.dirname(os.path.abspath(__file__))
sys.path.insert(0, os.path.join(HERE, "..", "harness"))
import tlc  # noqa: E402
import world  # noqa: E402
import checks_other as co  # noqa: E402

W = ("world",)
MUTANTS = [
    # name, file, old, new, kind, model, invariants, extra constants
    ("shortest-match", "Conv.tla", "\\A k2 \\in cand : Len(k2) <= Len(k)\n       IN Val(<<Get(c.trie, k), Drop(u, Len(k))>>)",
     "\\A k2 \\in cand : Len(k2) >= Len(k)\n       IN Val(<<Get(c.trie, k), Drop(u, Len(k))>>)", "world", "Query", ["Inv_C01"], {}),
    ("rsplit-curie", "Conv.tla", "LET p == PartBefore(s, c.delim)  id == PartAfter(s, c.delim) IN\n       IF Has(c.s2p, p) THEN Val(<<Get(c.s2p, p), id>>)",
     "LET p == RPartBefore(s, c.delim)  id == RPartAfter(s, c.delim) IN\n       IF Has(c.s2p, p) THEN Val(<<Get(c.s2p, p), id>>)", "world", "Query", ["Inv_C02"], {}),
    ("std-uri-keeps-synonym", "Conv.tla", "IF IsVal(r) THEN Val(Get(c.pm, r[2][1]) \\o r[2][2]) ELSE Tail3(md, u)", "IF IsVal(r) THEN Val(u) ELSE Tail3(md, u)",
     "world", "Query", ["Inv_C06"], {}),
    ("parse-curie-first", "Conv.tla", "IF IsURI(c, s) THEN ParseURIRaw(c, s)\n  ELSE IF IsCurie(c, s) THEN ParseCurie(c, s, strict)",
     "IF IsCurie(c, s) THEN ParseCurie(c, s, strict)\n  ELSE IF IsURI(c, s) THEN ParseURIRaw(c, s)", "world", "Query", ["Inv_C07"], {}),
    ("passthrough-beats-strict", "Conv.tla", "Tail3(md, input) == IF md.s THEN Raise(\"curies\") ELSE IF md.p THEN Val(input) ELSE None1",
     "Tail3(md, input) == IF md.p THEN Val(input) ELSE IF md.s THEN Raise(\"curies\") ELSE None1", "world", "Query", ["Inv_C08"], {}),
    ("index-forgets-uri-synonyms", "Conv.tla", "!.trie = PutAll(@, AllU(r), r.p),", "!.trie = PutAll(@, {r.u}, r.p),", "world", "Incr", [], {"MaxOps": 2}),
    ("merge-replaces-canonical", "Conv.tla", "Merge(ext, into) == [into EXCEPT !.ps = @ \\cup (AllP(ext) \\ AllP(into)),",
     "Merge(ext, into) == [into EXCEPT !.p = ext.p, !.ps = (@ \\cup AllP(ext) \\cup {into.p}) \\ {ext.p},", "world", "Incr", [], {"MaxOps": 2}),
    ("chain-later-wins", "Derive.tla", "ChainRecs(EmptyConv(DefaultDelim), ConcatRecs(cseq), cs)",
     "ChainRecs(EmptyConv(DefaultDelim), ConcatRecs([k \\in 1..Len(cseq) |-> cseq[Len(cseq) + 1 - k]]), cs)", "world", "Derive", ["Inv_C09"],
     {"Ops": '{"chain", "sub"}'}),
    ("sub-canonical-only", "Derive.tla", "LAMBDA r : AllP(r) \\cap P # {}", "LAMBDA r : r.p \\in P", "world", "Derive", ["Inv_C09"], {"Ops": '{"chain", "sub"}'}),
    ("remap-defective-transitive", "Derive.tla", "ELSE IF old \\in (MKeys(m) \\cap MVals(m)) /\\ Taken(c, m, old)\n                    THEN RemapLoop2(c, m, [live EXCEPT ![i] = [rec EXCEPT !.ps = (@ \\cup {rec.p}) \\ {old, new}, !.p = new]],",
     "ELSE IF old \\in (MKeys(m) \\cap MVals(m))\n                    THEN RemapLoop2(c, m, [live EXCEPT ![i] = [rec EXCEPT !.ps = @ \\ {old, new}, !.p = new]],", "world", "Remap", ["Inv_C11"], {}),
    ("repoint-forgets-old-uri", "Derive.tla", "Repoint(r, new) == [r EXCEPT !.us = (@ \\cup {r.u}) \\ {new}, !.u = new]", "Repoint(r, new) == [r EXCEPT !.us = @ \\ {new}, !.u = new]",
     "world", "Derive", ["Inv_C12"], {"Ops": '{"remap_uri", "rewire"}', "MaxBase": 1, "BaseMode": '"all"'}),
    ("reverse-map-longest", "Loaders.tla", "\\A i \\in 1..Len(g) : n <= Len(g[i][1])", "\\A i \\in 1..Len(g) : n >= Len(g[i][1])", "world", "Build", ["Inv_C13"], {}),
    ("clash-adjacent-only", "Conv.tla", "t[1] < t[2] /\\ t[3] \\in AllU(rs[t[1]]) /\\ t[3] \\in AllU(rs[t[2]])", "t[1] + 1 = t[2] /\\ t[3] \\in AllU(rs[t[1]]) /\\ t[3] \\in AllU(rs[t[2]])",
     "world", "Build", ["Inv_C04"], {}),
    ("resolver-no-resplit", "Web.tla", "p == PartBefore(curie, c.delim)  id == PartAfter(curie, c.delim)", "p == p0  id == id0", "other",
     ("mc/MC_Web.tla", "Spec", dict(co.WEB_CONST, MaxPath=7, MaxParts=1, MaxURI=1)), ["Inv_C17"], {}),
    ("negotiate-ascending-q", "Web.tla", "/\\ \\A j \\in 1..Len(h) : h[j][2] <= h[i][2]\n                                                /\\ \\A j \\in 1..(i - 1) : h[j][2] < h[i][2]",
     "/\\ \\A j \\in 1..Len(h) : h[j][2] >= h[i][2]\n                                                /\\ \\A j \\in 1..(i - 1) : h[j][2] > h[i][2]", "other",
     ("mc/MC_Web.tla", "Spec", dict(co.WEB_CONST, MaxPath=1, MaxParts=3, MaxURI=1)), ["Inv_C18neg"], {}),
    ("mapping-drops-validity-filter", "Web.tla", "IF ~IsVal(ea) THEN {} ELSE {x \\in AllOf(ea) : ValidIRI(x)}", "IF ~IsVal(ea) THEN {} ELSE AllOf(ea)", "other",
     ("mc/MC_Web.tla", "Spec", dict(co.WEB_CONST, MaxPath=1, MaxParts=1, MaxURI=5)), ["Inv_C18map"], {}),
    ("discover-left-split", "Discover.tla", "ELSE IF Contains(u, ds[1]) /\\ IsAlnumStr(RPartAfter(u, ds[1]))\n                       THEN <<RPartBefore(u, ds[1]) \\o ds[1], RPartAfter(u, ds[1])>>",
     "ELSE IF Contains(u, ds[1]) /\\ IsAlnumStr(PartAfter(u, ds[1]))\n                       THEN <<PartBefore(u, ds[1]) \\o ds[1], PartAfter(u, ds[1])>>", "other",
     ("mc/MC_Discover.tla", "DSpec", dict(co.DISC_CONST, MaxURIs=2, MaxLen=3, Chars="{1, 3, 5, 7, 8}", Tier='"quick"')), ["Inv_C19"], {}),
    ("discover-cutoff-strict", "Discover.tla", "Cardinality(LuidsOf(ps, up)) >= cutoff[1]})\n  IN", "Cardinality(LuidsOf(ps, up)) > cutoff[1]})\n  IN", "other",
     ("mc/MC_Discover.tla", "DSpec", dict(co.DISC_CONST, MaxURIs=2, MaxLen=3, Chars="{1, 3, 5, 7, 8}", Tier='"quick"')), ["Inv_C19"], {}),
    ("w3c-search-not-fullmatch", "W3C.tla", "Alt3(s) == Len(s) = 0 \\/ (Len(s) = 1 /\\ s[1] \\notin WS)", "Alt3(s) == TRUE", "other",
     ("mc/MC_W3C.tla", "WSpec", dict(co.W3C_CONST, MaxLen=3, Classes="{1,2,3,4,5,6,7,8,9,10,11,12,13,14}")), ["Inv_C20"], {}),
    ("ref-order-identifier-first", "Refs.tla", "Lt(a, b) == LexLT(a.p, b.p) \\/ (a.p = b.p /\\ LexLT(a.id, b.id))", "Lt(a, b) == LexLT(a.p \\o Colon \\o a.id, b.p \\o Colon \\o b.id)", "other",
     ("mc/MC_Refs.tla", "RSpec", {"FoldMap": "<- Fold", "MaxRefs": 2}), ["Inv_C15"], {}),
    ("bulk-write-while-converting", "BulkMachine.tla", "ELSE buf' = Append(buf, Conv(job, row)) /\\ UNCHANGED <<disk, pc, job>>",
     "ELSE buf' = Append(buf, Conv(job, row)) /\\ disk' = job.header \\o buf' /\\ UNCHANGED <<pc, job>>", "other",
     ("mc/MC_Bulk.tla", "MSpec", {"FoldMap": "<- Fold", "MaxRows": 2}), ["Inv_Atomic"], {}),
    ("jsonld-expanded-synonym-without-prefix", "Writers.tla", "[k \\in 1..Len(e) |-> <<e[k][1], <<IF expand THEN \"pdict\" ELSE \"str\", e[k][2]>>>>]",
     "[k \\in 1..Len(e) |-> <<e[k][1], IF expand /\\ k > 1 THEN <<\"other\">> ELSE <<IF expand THEN \"pdict\" ELSE \"str\", e[k][2]>>>>]", "other",
     ("mc/MC_IO.tla", "ISpec", {"FoldMap": "<- Fold", "DefaultDelim": "<- MCDefaultDelim", "MaxRecs": 2}), ["Inv_C14"], {}),
    ("bridge-index-forgets-prefix-synonyms", "Conv.tla", "[c EXCEPT !.pm   = PutAll(@, AllP(r), r.u),", "[c EXCEPT !.pm   = PutAll(@, {r.p}, r.u),", "world", "Incr", [], {"MaxOps": 2}),
    # the world with files (System.tla): snapshot semantics, frame of the I/O steps, C14 along histories
    ("read-gives-current-source", "System.tla", "LET f == files[j]  r == ReadFile(f) IN",
     "LET f == files[j]  r == ReadFile([f EXCEPT !.doc = DocOf(f.fmt, f.syn, f.expand, convs[f.srci])]) IN", "world", "System", [], {"MaxSteps": 4, "MaxConvs": 2}),
    ("write-drops-pattern-index-of-source", "System.tla", "  /\\ UNCHANGED convs\n\n\\* coverage", "  /\\ convs' = [convs EXCEPT ![i].pat = {}]\n\n\\* coverage", "world", "System", [], {}),
    ("shacl-forgets-patterns", "Writers.tla", "LET r == c.recs[i]  pat == IF HasPat(r) THEN r.pat ELSE NoPat IN", "LET r == c.recs[i]  pat == NoPat IN", "world", "System", [], {}),
    ("epm-reads-with-default-delimiter", "Writers.tla", "f.fmt = \"epm\" -> ReadEPM(f.doc, f.delim)", "f.fmt = \"epm\" -> ReadEPM(<<>>, f.delim)", "world", "System", [], {}),
    # Hooked.tla: converters with an overridden identifier hook
    ("hook-asked-with-synonym", "Hooked.tla", "ELSE LET np == Get(c.s2p, p)  r == HookAns(h, np, id) IN", "ELSE LET np == Get(c.s2p, p)  r == HookAns(h, p, id) IN", "other",
     ("mc/MC_Hook.tla", "MCSpec", {"FoldMap": "<-Fold", "MaxRecs": 1, "ProbeLen": 3, "IdLen": 1}), ["Inv_C07H", "Inv_SynonymKey"], {}),
    ("hook-skipped-by-is-curie", "Hooked.tla", "IsCurieH(c, h, s) == IsVal(ExpandH(c, h, s, Default))", "IsCurieH(c, h, s) == IsVal(Expand(c, s, Default))", "other",
     ("mc/MC_Hook.tla", "MCSpec", {"FoldMap": "<-Fold", "MaxRecs": 1, "ProbeLen": 3, "IdLen": 1}), ["Inv_C07H"], {}),
    ("hook-rejection-falls-back-to-raw-identifier", "Hooked.tla", "IF IsVal(r) THEN Val(<<np, r[2]>>)\n            ELSE IF strict THEN Raise(\"curies\") ELSE None1", "IF IsVal(r) THEN Val(<<np, r[2]>>)\n            ELSE Val(<<np, id>>)", "other",
     ("mc/MC_Hook.tla", "MCSpec", {"FoldMap": "<-Fold", "MaxRecs": 1, "ProbeLen": 3, "IdLen": 1}), ["Inv_C07H"], {}),
    ("hook-expand-uses-unhooked-identifier", "Hooked.tla", "IF IsVal(r) THEN ExpandRef(c, r[2][1], r[2][2], md) ELSE Tail3(md, s)\nExpandAllH", "IF IsVal(r) THEN ExpandRef(c, r[2][1], PartAfter(s, c.delim), md) ELSE Tail3(md, s)\nExpandAllH", "other",
     ("mc/MC_Hook.tla", "MCSpec", {"FoldMap": "<-Fold", "MaxRecs": 1, "ProbeLen": 3, "IdLen": 1}), ["Inv_C07H"], {}),
]


def main():
    want = set(sys.argv[1:])
    results = []
    spec_src = os.path.join(HERE, "..", "spec")
    for name, fn, old, new, kind, model, invs, extra in MUTANTS:
        if want and name not in want:
            continue
        d = tempfile.mkdtemp(prefix="specmut-", dir=tlc.OUT)
        try:
            dst = os.path.join(d, "spec")
            shutil.copytree(spec_src, dst)
            path = os.path.join(dst, fn)
            text = open(path).read()
            if old not in text:
                results.append((name, "STALE (pattern not found)"))
                continue
            open(path, "w").write(text.replace(old, new, 1))
            cfg = os.path.join(d, "m.cfg")
            if kind == "world":
                world.write_cfg(cfg, model, "quick", invs, extra)
                module = world.MODELS[model]["module"]
            else:
                module, spec, consts = model
                co.write_cfg(cfg, spec, consts, invs)
            out, wall, rc = tlc.run_tlc(module, cfg, timeout=900, cwd=dst)
            v = tlc.violated_invariant(out)
            err = tlc.tlc_error(out)
            results.append((name, f"violated {v} ({wall:.0f}s)" if v else ("TLC ERROR " + str(err)[:200] if err else "NOT DETECTED")))
        finally:
            shutil.rmtree(d, ignore_errors=True)
        print(results[-1], flush=True)
    bad = [r for r in results if not r[1].startswith("violated")]
    json.dump(results, open(os.path.join(HERE, "spec_mutants.report.json"), "w"), indent=1)
    print(f"{len(results) - len(bad)}/{len(results)} specification mutants are rejected by TLC")
    return 1 if bad else 0


if __name__ == "__main__":
    sys.exit(main())
