#!/bin/bash
# Non-vacuity of the TLAPS proofs: a mutated step relation / machine / theorem must leave obligations unproved.
d=$(mktemp -d /verif/out/tlapsmut.XXXX)
run() {  # name, module, files to copy, sed script applied to <target file>
  name=$1; mod=$2; target=$3; script=$4
  rm -rf $d/*; rm -rf $d/.tlacache
  cp /verif/spec/StepRel.tla /verif/spec/RepointRel.tla /verif/spec/BulkMachine.tla /verif/spec/tlaps/$mod $d/
  sed -i "$script" $d/$target
  if cmp -s $d/$target /verif/spec/$target || cmp -s $d/$target /verif/spec/tlaps/$target; then echo "$name: STALE (pattern not found)"; return; fi
  out=$(cd $d && timeout 900 tlapm --stretch 2 $mod 2>&1 | grep -o "All [0-9]* obligations proved\|[0-9]*/[0-9]* obligations failed" | head -1)
  echo "$name: ${out:-no verdict}"
}
run "C05: merge although two records match" C05_Step.tla StepRel.tla 's/IF (\\E a \\in m : \\E b \\in m : a # b) \\\/ (m # {} \/\\ ~g)/IF (m # {} \/\\ ~g)/'
run "C05: only the canonical prefix is indexed after a merge" C05_Step.tla StepRel.tla 's/pm2 = PutAll4(pm, AllP4(Merged4(r, e)), r.u)/pm2 = PutAll4(pm, {r.p}, r.u)/'
run "C09: 'Earlier' stated the wrong way round" C09_Step.tla C09_Step.tla 's/h.p = g.p \/\\ h.u = g.u \/\\ Contained4(g, h)/h.p = g.p \/\\ h.u = g.u \/\\ Contained4(h, g)/g'
run "C12: the clash test is dropped" C12_Repoint.tla RepointRel.tla 's/ELSE IF new \\in known \/\\ new \\notin r.us THEN r /ELSE IF FALSE THEN r /'
run "C16: the file is written while rows are converted" C16_Machine.tla BulkMachine.tla 's/ELSE buf. = Append(buf, Conv(job, row)) \/\\ UNCHANGED <<disk, pc, job>>/ELSE buf'"'"' = Append(buf, Conv(job, row)) \/\\ disk'"'"' = job.header \\o buf'"'"' \/\\ UNCHANGED <<pc, job>>/'
cd /verif; rm -rf $d
