#!/bin/bash
# Vacuity check of the Apalache obligations: a mutated step must be refuted ("The outcome is: Error").
d=$(mktemp -d /verif/out/apamut.XXXX)
sed "s/trie' = PutAll(trie, AllU(nr), nr.p)/trie' = PutAll(trie, {nr.u}, nr.p)/; s/MODULE Ind_C05 /MODULE Ind_C05_mut /" /verif/spec/apalache/Ind_C05.tla > $d/Ind_C05_mut.tla
sed 's/us |-> (r.us \\union {r.u}) \\ {new}\]/us |-> r.us \\ {new}]/; s/MODULE Ind_C12 /MODULE Ind_C12_mut /' /verif/spec/apalache/Ind_C12.tla > $d/Ind_C12_mut.tla
sed 's/{\[p |-> r.p, u |-> r.u, ps |-> r.ps \\union (AllP(ext) \\ AllP(r))/{[p |-> ext.p, u |-> r.u, ps |-> (r.ps \\union AllP(ext) \\union {r.p}) \\ {ext.p}/; s/MODULE Ind_C09 /MODULE Ind_C09_mut /' /verif/spec/apalache/Ind_C09.tla > $d/Ind_C09_mut.tla
cd $d
echo "Ind_C05 with a trie update that forgets URI synonyms: $(timeout 900 apalache-mc check --init=IndInit --inv=IndInv --length=1 --out-dir=$d/o Ind_C05_mut.tla 2>&1 | grep -m1 -o 'The outcome is: [A-Za-z]*')"
echo "Ind_C12 with a re-pointing that forgets the old canonical URI prefix: $(timeout 900 apalache-mc check --init=Init --inv=Inv --length=1 --out-dir=$d/o Ind_C12_mut.tla 2>&1 | grep -m1 -o 'The outcome is: [A-Za-z]*')"
echo "Ind_C09 with a merge in which the LATER record's prefix becomes canonical: $(timeout 900 apalache-mc check --init=IndInit --inv=IndInv --length=1 --out-dir=$d/o Ind_C09_mut.tla 2>&1 | grep -m1 -o 'The outcome is: [A-Za-z]*')"
cd /verif; rm -rf $d
