#!/venv/bin/python
"""Binding demonstrations: the trace validator rejects corrupted traces with the right clause.
Run: /venv/bin/python selftest/binding_tests.py   (exit 0 = all demonstrations behaved as expected)"""
import copy
import json
import os
import random
import sys

sys.path.insert(0, os.path.join(os.path.dirname(os.path.abspath(__file__)), "..", "harness"))
import impl  # noqa: E402
import tlc  # noqa: E402


def record():
    I = impl.Interner()
    w = impl.World(I, random.Random(1), probe_cap=12, full_n=3)
    w.new([{"p": "GO", "u": "http://obo/GO_", "ps": ["go"]}, {"p": "OBO", "u": "http://obo/"}])
    w.add(1, {"p": "chebi", "u": "http://obo/CHEBI_", "us": ["http://ebi/chebi:"]})
    w.add(1, {"p": "go", "u": "http://x/"}, mg=True)
    w.chain([1], True)
    return I, w.events


def clauses(I, events, focus=("C01", "C02", "C05", "C09", "C10")):
    fails, st = tlc.validate_traces(impl.batch_json(I, [events], list(focus)))
    return sorted({"/".join(c) for _, _, c in fails})


def main():
    ok = True

    def expect(name, got, pred):
        nonlocal ok
        good = pred(got)
        ok &= good
        print(("ok   " if good else "FAIL ") + name + ": " + json.dumps(got)[:200])
    I, ev = record()
    expect("1. an unmodified recorded trace is accepted", clauses(I, ev), lambda g: g == [])
    # 2. corrupt one logged answer
    e2 = copy.deepcopy(ev)
    row = next(r for r in e2[0]["pt"] if r["a"]["compress"][0] == "val")
    row["a"]["compress"] = ["val", I("GO:corrupted")]
    expect("2. a corrupted compress answer is rejected by ans/compress", clauses(I, e2), lambda g: "ans/compress" in g)
    # 3. remove one event: the next event no longer follows from the adopted state
    e3 = copy.deepcopy(ev)
    del e3[1]
    expect("3. a deleted event is noticed (post-state of the following add)", clauses(I, e3), lambda g: any(x.startswith("post/add") for x in g))
    # 4. a stale index in the projection
    e4 = copy.deepcopy(ev)
    e4[1]["convs"][0]["rpm"] = copy.deepcopy(ev[0]["convs"][0]["rpm"])
    e4[2]["convs"][0] = copy.deepcopy(ev[2]["convs"][0]) if "same" not in ev[2]["convs"][0] else e4[2]["convs"][0]
    expect("4. a stale reverse_prefix_map is rejected by post/add/rpm", clauses(I, e4), lambda g: "post/add/rpm" in g)
    # 5. the input of chain silently changed (aliasing): frame clause
    e5 = copy.deepcopy(ev)
    full = next(copy.deepcopy(e["convs"][0]) for e in reversed(ev[:3]) if "same" not in e["convs"][0])   # last full projection of converter 1
    full["recs"][0]["ps"].append(I("leaked"))
    e5[3]["convs"][0] = full
    expect("5. a change of an input converter during chain is rejected by frame/chain/recs", clauses(I, e5), lambda g: "frame/chain/recs" in g)
    # 6. wrong outcome
    e6 = copy.deepcopy(ev)
    e6[2]["out"] = ["raise", "valueerror", "ValueError"]
    expect("6. a wrong outcome is rejected by out/add", clauses(I, e6), lambda g: "out/add" in g)
    # files (spec/System.tla): write, change the source, read back -- the file is a snapshot of the source when written
    I2 = impl.Interner()
    w = impl.World(I2, random.Random(2), probe_cap=6, full_n=0)
    w.new([{"p": "GO", "u": "http://obo/GO_", "ps": ["go"], "pat": "^\\d{7}$"}, {"p": "OBO", "u": "http://obo/"}])
    w.write(1, "epm", False, False)
    w.add(1, {"p": "GO", "u": "http://obo/GO_", "ps": ["gomf"]}, mg=True)
    w.read(1)
    w.write(1, "jsonld", True, True)
    w.read(2)
    w.cleanup()
    fv = w.events
    focus = ("C10", "C14")
    expect("7. an unmodified history with files is accepted", clauses(I2, fv, focus), lambda g: g == [])
    e8 = copy.deepcopy(fv)
    conv = e8[3]["convs"][-1]                      # the converter read back from the EPM file ...
    conv["recs"][0]["ps"].append(I2("gomf"))      # ... claims the synonym merged into the source AFTER the file was written
    expect("8. a read that shows the CURRENT source instead of the snapshot is rejected by post/read/recs and mon/C14/epm", clauses(I2, e8, focus),
           lambda g: "post/read/recs" in g and "mon/C14/epm" in g)
    e9 = copy.deepcopy(fv)
    full = next(copy.deepcopy(e["convs"][0]) for e in reversed(fv[:1]) if "same" not in e["convs"][0])
    full["pat"] = []
    e9[1]["convs"][0] = full                       # the write event leaves the source without its pattern index
    expect("9. a write that changes its source converter is rejected by frame/write/pat", clauses(I2, e9, focus), lambda g: "frame/write/pat" in g)
    e10 = copy.deepcopy(fv)
    e10[5]["convs"][-1]["pm"] = e10[5]["convs"][-1]["pm"][:-1]      # the JSON-LD read-back lost a prefix
    expect("10. a read-back that lost a prefix is rejected by post/read/pm and mon/C14/jsonld", clauses(I2, e10, focus),
           lambda g: "post/read/pm" in g and "mon/C14/jsonld" in g)
    return 0 if ok else 1


if __name__ == "__main__":
    sys.exit(main())
