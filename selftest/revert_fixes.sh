#!/bin/bash
# For every fix: commit of /repo: reverse it in a scratch worktree and run the property's quick check there.
# Expected: exit 1 with a VIOLATION line (a "fixed" entry of known_findings.json suppresses nothing).
wt=${1:-/tmp/wt/C20}
git -C $wt checkout -q --detach $(git -C /repo rev-parse HEAD) 2>/dev/null
python3 - <<'PY' > /tmp/fixes.$$
import json
for e in json.load(open('/verif/known_findings.json')):
    if e['status']=='fixed': print(e['id'], e['property'], e['commit'].split()[0])
PY
while read id pid sha; do
  git -C $wt checkout -q -- . ; git -C /repo show $sha -- src | git -C $wt apply -R 2>/dev/null || { echo "$id $pid $sha: cannot reverse"; continue; }
  CURIES_SRC=$wt/src VERIF_EVIDENCE_DIR=/verif/out/selftest-evidence timeout 1800 /venv/bin/python /verif/harness/vcheck check $pid > /tmp/revert.$$.log 2>&1
  echo "$id $pid $sha rc=$? $(grep -m1 '^VIOLATION\|MACHINERY' /tmp/revert.$$.log | cut -c1-150)"
  git -C $wt checkout -q -- .
done < /tmp/fixes.$$
rm -f /tmp/fixes.$$ /tmp/revert.$$.log
