#!/usr/bin/env python3
"""Mechanical mutation sweep: small syntactic mutations of the library source in a scratch worktree.

For every mutant: (1) it must still import, (2) the repository's suite must still have its 114 passes (otherwise the
mutant is 'killed by tests' and of no interest), (3) the checks mapped to the enclosing function are run with
CURIES_SRC pointing at the worktree.  Survivors that no check reports are listed for manual triage (many are
equivalent mutants or touch behaviour no property fixes).

usage: mutation_sweep.py <worktree> <results.jsonl> [--limit N] [--files f1,f2] [--only-survivors file]"""
import json
import os
import re
import subprocess
import sys
import time

PY = "/venv/bin/python"
FILES = ["src/curies/api.py", "src/curies/reconciliation.py", "src/curies/discovery.py", "src/curies/w3c.py",
         "src/curies/resolver_service.py", "src/curies/mapping_service/utils.py", "src/curies/mapping_service/api.py", "src/curies/triples.py"]
OPS = [
    (r" is not None", " is None"), (r" is None", " is not None"), (r" == ", " != "), (r" != ", " == "),
    (r" and ", " or "), (r" or ", " and "), (r"\bif not ", "if "), (r" > 1\b", " >= 1"), (r" >= ", " > "), (r" > ", " >= "),
    (r"\[0\]", "[-1]"), (r"\[1:\]", "[:-1]"), (r"\bsorted\(", "list("), (r"\.partition\(", ".rpartition("),
    (r"\.rsplit\(", ".split("), (r"\.startswith\(", ".endswith("), (r"merge=True", "merge=False"), (r"strict=True", "strict=False"),
    (r"strict=False", "strict=True"), (r"\.append\(", ".insert(0, "), (r"\bcontinue\b", "pass"), (r"\bbreak\b", "continue"),
    (r"case_sensitive=case_sensitive", "case_sensitive=True"), (r"deep=True", "deep=False"), (r"\+ identifier", "+ identifier[:]"),
    (r"\.casefold\(\)", ".lower()"), (r"reverse=True", "reverse=False"), (r"maxsplit=1", "maxsplit=2"), (r"not in ", "in "), (r"\bin self\.", "not in self."),
    (r"len\(([a-z_]+)\) >= cutoff", r"len(\1) > cutoff"), (r"\.union\(", ".intersection("), (r"\.difference\(", ".union("),
]
# second wave (--ops2): more operators, and deletion of simple statements (ids use operator numbers >= 100)
OPS2 = [
    (r"=True\b", "=False"), (r"=False\b", "=True"), (r"\breturn True\b", "return False"), (r"\breturn False\b", "return True"),
    (r"\[-1\]", "[0]"), (r"\bmin\(", "max("), (r"\bmax\(", "min("), (r" < ", " <= "), (r" <= ", " < "), (r" \+ 1\b", " + 2"), (r" - 1\b", " - 2"),
    (r"\.lower\(\)", ".upper()"), (r"\.strip\(\)", ""), (r"\.add\(", ".discard("), (r"\.extend\(", ".append("), (r"\bany\(", "all("), (r"\ball\(", "any("),
    (r"\bnot ", ""), (r"\.lstrip\(", ".rstrip("), (r"\.rstrip\(", ".lstrip("), (r"\.removeprefix\(", ".removesuffix("), (r"\[:-1\]", "[1:]"),
    (r"\.get\(([^,()]+)\)", r"[\1]"), (r"\belif\b", "if"), (r"\.items\(\)", ".items() if False"), (r"\.values\(\)", ".keys()"),
    (r", reverse=True", ""), (r"key=len", "key=str"), (r"\.copy\(\)", ""), (r"\bdict\(([a-z_.]+)\)", r"\1"), (r"\blist\(([a-z_.]+)\)", r"\1"),
    (r"\.fullmatch\(", ".match("), (r"\.match\(", ".search("), (r"\.split\(", ".rsplit("), (r"\.rpartition\(", ".partition("), (r"\.endswith\(", ".startswith("),
]
DELETE = 199   # operator number of "replace a simple statement by pass"


def deletable(st):
    """A simple statement whose removal leaves a syntactically valid body: a bare call, an augmented assignment,
    an item/attribute assignment, `return` without value is excluded (nothing to delete)."""
    if st.endswith((":", ",", "(", "[", "{", "\\")) or st.startswith((")", "]", "}", "return", "yield", "else", "elif", "try", "except", "finally", "with ", "for ", "while ", "if ", "def ", "class ", "raise", "pass", "assert")):
        return False
    if st.count("(") != st.count(")") or st.count("[") != st.count("]") or st.count("{") != st.count("}"):
        return False
    return bool(re.match(r"[A-Za-z_][\w.\[\]\"']*(\(.*\)|\s*[+\-|&]?=\s.*)$", st))


# enclosing function -> checks
FUNC_PIDS = {
    "parse_uri": ["C01", "C07"], "compress": ["C01", "C03"], "is_uri": ["C07", "C01"], "_index": ["C05", "C01"], "__init__": ["C04", "C01", "C02"],
    "_split": ["C02", "C15"], "parse_curie": ["C02", "C08"], "standardize_prefix": ["C06", "C02"], "expand_reference": ["C02", "C08"],
    "expand_pair": ["C02"], "expand_pair_all": ["C02", "C08"], "expand_all": ["C02", "C08"], "expand": ["C02", "C08"],
    "standardize_curie": ["C06"], "standardize_uri": ["C06", "C03"], "parse": ["C07", "C08"], "compress_or_standardize": ["C07", "C08"],
    "expand_or_standardize": ["C07", "C08"], "is_curie": ["C07"], "format_curie": ["C07"], "_get_duplicate_uri_prefixes": ["C04"],
    "_get_duplicate_prefixes": ["C04"], "prefix_not_in_synonyms": ["C04"], "uri_prefix_not_in_synonyms": ["C04"], "bimap": ["C04"], "reverse_bimap": ["C04"],
    "_get_prefix_map": ["C04", "C02"], "_get_reverse_prefix_map": ["C04", "C01"], "_get_prefix_synmap": ["C04", "C02"], "_get_pattern_map": ["C14", "C05"],
    "_match_record": ["C05", "C09"], "add_record": ["C05"], "_merge": ["C05"], "add_prefix": ["C05"], "chain": ["C09", "C10"], "_eq": ["C05", "C09"], "_in": ["C05", "C09"],
    "get_subconverter": ["C09", "C10"], "get_record": ["C02", "C11"], "get_prefixes": ["C04"], "get_uri_prefixes": ["C04"],
    "remap_curie_prefixes": ["C11", "C10"], "_get_copy": ["C11", "C10"], "_split": ["C02", "C15"], "_order_curie_remapping": ["C11"], "remap_uri_prefixes": ["C12", "C10"], "rewire": ["C12", "C10"],
    "_get_curie_preferred_or_synonym": ["C12"], "_get_uri_preferred_or_synonym": ["C12"],
    "from_extended_prefix_map": ["C13"], "from_priority_prefix_map": ["C13"], "from_prefix_map": ["C13"], "from_reverse_prefix_map": ["C13"],
    "from_jsonld": ["C13", "C14"], "from_rdflib": ["C13"], "_prepare": ["C13"], "upgrade_prefix_map": ["C13"], "from_shacl": ["C14"],
    "write_extended_prefix_map": ["C14"], "_record_to_dict": ["C14"], "_get_jsonld_context": ["C14"], "write_jsonld_context": ["C14"], "_get_expanded_term": ["C14"],
    "write_shacl": ["C14"], "write_tsv": ["C14"], "_get_shacl_line": ["C14"], "_ensure_path": ["C14"],
    "curie": ["C15"], "from_curie": ["C15"], "_parse_from_string": ["C15"], "__lt__": ["C15"], "__hash__": ["C15"], "__eq__": ["C15"], "pair": ["C15"],
    "from_reference": ["C15"], "_validate": ["C15"], "_converter_from_validation_info": ["C15"], "_get_file": ["C15"], "write_triples": ["C15"], "read_triples": ["C15"],
    "pd_compress": ["C16"], "pd_expand": ["C16"], "pd_standardize_prefix": ["C16"], "pd_standardize_curie": ["C16"], "pd_standardize_uri": ["C16"],
    "file_compress": ["C16"], "file_expand": ["C16"], "_file_helper": ["C16"],
    "resolve": ["C17"], "_split_first": ["C17"], "get_flask_blueprint": ["C17"], "get_fastapi_router": ["C17", "C18"],
    "_expand_pair_all": ["C18"], "triples": ["C18"], "_handle_part": ["C18"], "parse_header": ["C18"], "handle_header": ["C18"], "serve_sparql": ["C18"], "_resolve": ["C18"],
    "discover": ["C19"], "_get_uri_prefix_to_luids": ["C19"], "is_w3c_prefix": ["C20"], "_is_w3c_luid": ["C20"], "is_w3c_curie": ["C20"],
}
SKIP_FUNCS = {"get_sparql_records", "sparql_service_available", "require_service", "_get_remote_json", "from_jsonld_github", "handle_json", "handle_xml", "handle_csv",
              "get_sparql_record_so_tuples", "discover_from_rdf", "get_uris_from_rdf", "_ensure_graph", "_yield_uris", "__str__", "_str", "_key", "from_curies",
              "get_flask_app", "get_fastapi_app", "get_flask_mapping_app", "get_fastapi_mapping_app", "get_flask_mapping_blueprint", "standardize_identifier", "to_pydantic",
              "__get_pydantic_core_schema__", "__iter__", "_get_field_validator_values"}


def sh(cmd, cwd=None, env=None, timeout=3000):
    p = subprocess.run(cmd, cwd=cwd, env=env, stdout=subprocess.PIPE, stderr=subprocess.STDOUT, text=True, timeout=timeout)
    return p.returncode, p.stdout


def code_lines(text):
    """(index, line, enclosing function) for lines that are code (not docstrings / comments / overload stubs)."""
    out, in_doc, func, overload = [], False, None, False
    for i, line in enumerate(text.split("\n")):
        st = line.strip()
        q = st.count('"""') + st.count("'''")
        if in_doc:
            if q % 2 == 1:
                in_doc = False
            continue
        if q % 2 == 1:
            in_doc = True
            continue
        if q == 2 and (st.startswith('"""') or st.startswith('r"""')):
            continue
        m = re.match(r"\s*(?:async\s+)?def\s+(\w+)", line)
        if m:
            func = m.group(1)
        if not st or st.startswith("#") or st.startswith("@") or "logger." in st or st.startswith(("import ", "from ")) or st.endswith("..."):
            continue
        if st.startswith(("raise ", '"', "'", "f\"", "f'")) or "warnings.warn" in st:
            continue
        out.append((i, line, func))
    return out


def main():
    wt, results = sys.argv[1], sys.argv[2]
    limit = int(sys.argv[sys.argv.index("--limit") + 1]) if "--limit" in sys.argv else 10 ** 9
    files = sys.argv[sys.argv.index("--files") + 1].split(",") if "--files" in sys.argv else FILES
    done = set()
    if os.path.exists(results):
        for l in open(results):
            try:
                done.add(json.loads(l)["id"])
            except Exception:
                pass
    env = dict(os.environ, PYTHONPATH=f"{wt}/src")
    n = 0
    for fn in files:
        path = os.path.join(wt, fn)
        sh(["git", "checkout", "--", "src"], cwd=wt)
        orig = open(path).read()
        lines = orig.split("\n")
        for i, line, func in code_lines(orig):
            if func in SKIP_FUNCS:
                continue
            ops = list(enumerate(OPS))
            if "--ops2" in sys.argv:
                ops = [(100 + k, o) for k, o in enumerate(OPS2)]
                if deletable(line.strip()):
                    ops.append((DELETE, (r"^(\s*).*$", r"\1pass")))
            for k, (pat, rep) in ops:
                if not re.search(pat, line):
                    continue
                new = re.sub(pat, rep, line, count=1)
                if new == line:
                    continue
                mid = f"{fn}:{i + 1}:{k}"
                if mid in done:
                    continue
                n += 1
                if n > limit:
                    return
                res = {"id": mid, "func": func, "old": line.strip(), "new": new.strip()}
                open(path, "w").write("\n".join(lines[:i] + [new] + lines[i + 1:]))
                try:
                    rc, out = sh([PY, "-c", "import curies, curies.reconciliation, curies.discovery, curies.w3c, curies.resolver_service, curies.mapping_service"], cwd=wt, env=env, timeout=120)
                    if rc:
                        res["status"] = "does-not-import"
                    else:
                        rc, out = sh([PY, "-m", "pytest", "-q", "-x", "-p", "no:cacheprovider", "--timeout=300", "tests",
                                      "--deselect", "tests/test_api.py::TestConverter::test_bioregistry", "--deselect", "tests/test_api.py::TestConverter::test_from_github",
                                      "--deselect", "tests/test_api.py::TestConverter::test_go_registry", "--deselect", "tests/test_api.py::TestConverter::test_monarch",
                                      "--deselect", "tests/test_api.py::TestConverter::test_obo", "--deselect", "tests/test_discovery.py::TestDiscovery::test_remote",
                                      "--deselect", "tests/test_mapping_service.py::TestFastAPIMappingApp", "--deselect", "tests/test_mapping_service.py::TestUtils::test_availability"],
                                     cwd=wt, env=env, timeout=900)
                        m = re.search(r"(\d+) passed", out)
                        passed = int(m.group(1)) if m else 0
                        if " failed" in out or " error" in out or passed < 114:
                            res["status"] = "killed-by-tests"
                        else:
                            pids = FUNC_PIDS.get(func) or []
                            res["status"] = "survived"
                            res["checks"] = {}
                            for pid in pids:
                                e = dict(os.environ, CURIES_SRC=f"{wt}/src", VERIF_EVIDENCE_DIR="/verif/out/selftest-evidence")
                                e.pop("PYTHONPATH", None)
                                t0 = time.time()
                                rc, out = sh([PY, "/verif/harness/vcheck", "check", pid, "--tier", "quick"], cwd="/verif", env=e, timeout=2400)
                                first = next((l[:200] for l in out.splitlines() if l.startswith(("VIOLATION", "MACHINERY"))), "")
                                res["checks"][pid] = {"rc": rc, "wall": round(time.time() - t0, 1), "line": first}
                                if rc == 1:
                                    break
                            res["detected"] = any(v["rc"] == 1 for v in res["checks"].values())
                except subprocess.TimeoutExpired:
                    res["status"] = "timeout"
                finally:
                    open(path, "w").write(orig)
                with open(results, "a") as f:
                    f.write(json.dumps(res) + "\n")
        sh(["git", "checkout", "--", "src"], cwd=wt)


if __name__ == "__main__":
    main()
