#!/usr/bin/env python3
"""Binding tests for the hooked-converter specification (spec/Hooked.tla, spec/TraceHook.tla).

The unchanged library is accepted; three in-process corruptions of the implementation are each rejected with the
expected clauses.  Nothing is written to /repo: the corruptions are monkey-patches of the imported module."""
import os
import sys

sys.path.insert(0, os.path.join(os.path.dirname(os.path.abspath(__file__)), "..", "harness"))
import checks_world as cw  # noqa: E402
import curies  # noqa: E402
from curies.api import ReferenceTuple  # noqa: E402

C = curies.Converter


def clauses(res):
    return sorted({l.split("clause ")[1].split(" ")[0] for l in res["lines"]}), res["violations"]


def run(name, expect_some, pid="C07"):
    res = cw.hook_part(0, pid=pid)
    cl, n = clauses(res)
    ok = (n > 0) == expect_some
    print(f"{'ok ' if ok else 'BAD'} {name}: {n} failing clauses, e.g. {cl[:6]}")
    return ok


good = run("unchanged library accepted", False)

# 1. standardize_curie bypasses the hook (goes to the lookup table directly)
orig = C.standardize_curie


def std_curie(self, curie, *, strict=False, passthrough=False):
    if self.delimiter in curie:
        p, _, i = curie.partition(self.delimiter)
        np = self.synonym_to_prefix.get(p)
        if np is not None:
            return self.format_curie(np, i)
    return orig(self, curie, strict=strict, passthrough=passthrough)


C.standardize_curie = std_curie
good &= run("standardize_curie skips the hook", True)
C.standardize_curie = orig

# 2. the hook is consulted with the prefix AS WRITTEN (a synonym), not the canonical one
orig_pc = C.parse_curie


def parse_curie(self, curie, *, strict=False):
    r = orig_pc(self, curie, strict=strict)
    if r is None or self.delimiter not in curie:
        return r
    p, _, i = curie.partition(self.delimiter)
    ni = self.standardize_identifier(p, i)
    if ni is None:
        if strict:
            raise curies.api.IdentifierStandardizationError(curie)
        return None
    return ReferenceTuple(r.prefix, ni)


C.parse_curie = parse_curie
good &= run("hook asked with the synonym instead of the canonical prefix", True)
C.parse_curie = orig_pc

# 3. expand_all forgets that the hook may reject (falls back to the unhooked identifier)
orig_ea = C.expand_all


def expand_all(self, curie, *, strict=False):
    r = orig_ea(self, curie, strict=False)
    if r is None and self.delimiter in curie:
        p, _, i = curie.partition(self.delimiter)
        if self.standardize_prefix(p) is not None:
            return self.expand_pair_all(self.standardize_prefix(p), i)
    if r is None and strict:
        return orig_ea(self, curie, strict=True)
    return r


C.expand_all = expand_all
good &= run("expand_all ignores a rejecting hook", True)
C.expand_all = orig_ea

# 4. strict mode: a rejection by the hook is swallowed (None instead of an error) -- C08 on hooked converters
orig_ex = C.expand


def expand(self, curie, *, strict=False, passthrough=False):
    try:
        return orig_ex(self, curie, strict=strict, passthrough=passthrough)
    except ValueError:
        p, sep, _ = curie.partition(self.delimiter)
        if sep and self.standardize_prefix(p) is not None:      # the prefix is known: it was the hook that said no
            return None
        raise


C.expand = expand
good &= run("strict expand swallows the hook's rejection (C07 view: expand_strict and the strict clause of P_C07H)", True)
good &= run("strict expand swallows the hook's rejection", True, pid="C08")
C.expand = orig_ex
good &= run("unchanged library accepted (C08 clauses)", False, pid="C08")

# 5. the pair methods start consulting the hook (expand_pair standardises the identifier first)
orig_er = C.expand_reference


def expand_reference(self, reference, *, strict=False, passthrough=False):
    np = self.standardize_prefix(reference.prefix)
    if np is not None:
        ni = self.standardize_identifier(np, reference.identifier)
        if ni is not None:
            reference = ReferenceTuple(reference.prefix, ni)
    return orig_er(self, reference, strict=strict, passthrough=passthrough)


C.expand_reference = expand_reference
good &= run("expand_pair / expand_reference consult the hook", True)
C.expand_reference = orig_er
sys.exit(0 if good else 1)
