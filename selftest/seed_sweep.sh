#!/bin/bash
# usage: seed_sweep.sh <tier> <seed> ...   -- every check with every seed; prints one line per run (no false alarm expected)
tier=$1; shift
export VERIF_EVIDENCE_DIR=${VERIF_EVIDENCE_DIR:-/verif/out/sweep-evidence}
for seed in "$@"; do
  for p in C01 C02 C03 C04 C05 C06 C07 C08 C09 C10 C11 C12 C13 C14 C15 C16 C17 C18 C19 C20; do
    s=$(date +%s)
    VERIF_SEED=$seed /venv/bin/python harness/vcheck check $p --tier $tier > /tmp/sweep.$$.log 2>&1
    rc=$?
    echo "seed=$seed $p rc=$rc $(( $(date +%s) - s ))s $(grep -c '^VIOLATION' /tmp/sweep.$$.log) violations $(grep -h 'MACHINERY' /tmp/sweep.$$.log | head -1 | cut -c1-200)"
    if [ $rc -ne 0 ]; then grep -h '^VIOLATION\|MACHINERY' /tmp/sweep.$$.log | head -3 | cut -c1-300; fi
  done
done
rm -f /tmp/sweep.$$.log
