#!/usr/bin/env python3
"""Confirm a seeded change and run checks against it.

usage: run_mutant.py <worktree> <mutant-dir> <pid> [<pid> ...]
  1. applies <mutant-dir>/patch.diff in the scratch worktree (never in /repo),
  2. runs the repository's test-suite there (must still have 114 passes),
  3. runs <mutant-dir>/demo.py (must fail with the change, pass without),
  4. runs `vcheck check <pid>` with CURIES_SRC pointing at the worktree (expected: exit 1),
  5. restores the worktree.
Prints one JSON line with what happened."""
import json
import os
import re
import subprocess
import sys
import time

PY = "/venv/bin/python"


def sh(cmd, cwd=None, env=None, timeout=3000):
    p = subprocess.run(cmd, cwd=cwd, env=env, stdout=subprocess.PIPE, stderr=subprocess.STDOUT, text=True, timeout=timeout)
    return p.returncode, p.stdout


def main():
    wt, mdir, pids = sys.argv[1], sys.argv[2], sys.argv[3:]
    env = dict(os.environ, PYTHONPATH=f"{wt}/src")
    res = {"worktree": wt, "mutant": mdir, "checks": {}}
    sh(["git", "checkout", "--", "src"], cwd=wt)
    rc, out = sh([PY, os.path.join(mdir, "demo.py")], cwd=wt, env=env)
    res["demo_clean_rc"] = rc
    rc, out = sh(["git", "apply", os.path.join(mdir, "patch.diff")], cwd=wt)
    if rc:
        res["error"] = "patch does not apply: " + out[-300:]
        print(json.dumps(res))
        return 2
    try:
        rc, out = sh([PY, "-m", "pytest", "-q", "-p", "no:cacheprovider", "--timeout=900", "tests"], cwd=wt, env=env)
        m = re.search(r"(\d+) passed", out)
        f = re.search(r"(\d+) failed", out)
        res["tests_passed"] = int(m.group(1)) if m else 0
        res["tests_failed"] = int(f.group(1)) if f else 0
        rc, out = sh([PY, os.path.join(mdir, "demo.py")], cwd=wt, env=env)
        res["demo_mutant_rc"] = rc
        for pid in pids:
            e = dict(os.environ, CURIES_SRC=f"{wt}/src", VERIF_EVIDENCE_DIR="/verif/out/selftest-evidence")
            e.pop("PYTHONPATH", None)
            t0 = time.time()
            rc, out = sh([PY, "/verif/harness/vcheck", "check", pid, "--tier", os.environ.get("MUT_TIER", "quick")], cwd="/verif", env=e)
            lines = [l for l in out.splitlines() if l.startswith(("VIOLATION", "KNOWN-FINDING", "MACHINERY"))]
            res["checks"][pid] = {"rc": rc, "wall": round(time.time() - t0, 1), "lines": [l[:220] for l in lines[:4]]}
    finally:
        sh(["git", "checkout", "--", "src"], cwd=wt)
    res["confirmed"] = res.get("tests_passed") == 114 and res.get("demo_clean_rc") == 0 and res.get("demo_mutant_rc", 0) != 0
    print(json.dumps(res))
    return 0


if __name__ == "__main__":
    sys.exit(main())
