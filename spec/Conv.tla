------------------------------- MODULE Conv -------------------------------
(***************************************************************************)
(* Operational specification of curies.Converter (src/curies/api.py).      *)
(* One operator per public method, written with the control flow of the    *)
(* code: the converter value carries the record list AND the five lookup   *)
(* structures the implementation maintains separately; queries read the    *)
(* lookup structures, never the records (exactly like the code).  The      *)
(* declarative statements of the properties live in Props.tla and are      *)
(* phrased over the records only.                                          *)
(***************************************************************************)
EXTENDS Text
CONSTANT FoldMap(_)      \* str.casefold, character-wise: char -> Seq(char)

RECURSIVE CF(_)
CF(s) == IF s = <<>> THEN <<>> ELSE FoldMap(s[1]) \o CF(Tail(s))

---------------------------------------------------------------------------
\* Records (api.py:587-647).  pat is <<>> (None) or <<pattern>>.
Rec(p, u, ps, us, pat) == [p |-> p, u |-> u, ps |-> ps, us |-> us, pat |-> pat]
NoPat == <<>>
AllP(r) == {r.p} \cup r.ps
AllU(r) == {r.u} \cup r.us
\* field validators (api.py:611-629)
ValidRec(r) == r.p \notin r.ps /\ r.u \notin r.us
HasPat(r) == r.pat # <<>> /\ r.pat[1] # <<>>          \* `if record.pattern`

\* Outcomes are tagged tuples.  Exception families: "curies" = a ValueError
\* subclass defined by the library; "valueerror" = any ValueError.
None1 == <<"none">>
None2 == <<"none2">>                                  \* legacy (None, None)
Val(v) == <<"val", v>>
Raise(f) == <<"raise", f>>
Ok == <<"ok">>
IsVal(o) == o[1] = "val"

---------------------------------------------------------------------------
\* Converter value: delim, recs (sequence, list order of the code) and the
\* five indexes prefix_map, synonym_to_prefix, reverse_prefix_map, trie,
\* pattern_map (api.py:871-877).
RecSet(c) == SeqToSet(c.recs)
EmptyConv(d) == [delim |-> d, recs |-> <<>>, pm |-> {}, s2p |-> {}, rpm |-> {}, trie |-> {}, pat |-> {}]

\* sorted(records, key=lambda r: r.prefix)  -- stable
RECURSIVE InsertSorted(_, _)
InsertSorted(sorted, r) ==
  IF sorted = <<>> THEN <<r>>
  ELSE IF LexLT(r.p, sorted[1].p) THEN <<r>> \o sorted
  ELSE <<sorted[1]>> \o InsertSorted(Tail(sorted), r)
RECURSIVE StableSort(_)
StableSort(rs) == IF rs = <<>> THEN <<>>
                  ELSE InsertSorted(StableSort(SubSeq(rs, 1, Len(rs) - 1)), rs[Len(rs)])

\* _get_duplicate_uri_prefixes / _get_duplicate_prefixes (api.py:739-754):
\* clash summaries as <<{record_1, record_2}, shared string>>
ClashesU(rs) == {<<{rs[i], rs[j]}, x>> : <<i, j, x>> \in
                   {t \in (1..Len(rs)) \X (1..Len(rs)) \X UNION {AllU(rs[k]) : k \in 1..Len(rs)} :
                       t[1] < t[2] /\ t[3] \in AllU(rs[t[1]]) /\ t[3] \in AllU(rs[t[2]])}}
ClashesP(rs) == {<<{rs[i], rs[j]}, x>> : <<i, j, x>> \in
                   {t \in (1..Len(rs)) \X (1..Len(rs)) \X UNION {AllP(rs[k]) : k \in 1..Len(rs)} :
                       t[1] < t[2] /\ t[3] \in AllP(rs[t[1]]) /\ t[3] \in AllP(rs[t[2]])}}

\* the constructor's index builders (api.py:757-785): one pass per structure,
\* later records overwrite earlier ones (only visible when strict = FALSE)
RECURSIVE CtorPM(_)
CtorPM(rs) == IF rs = <<>> THEN {} ELSE
  LET r == rs[Len(rs)] IN PutAll(CtorPM(SubSeq(rs, 1, Len(rs) - 1)), AllP(r), r.u)
RECURSIVE CtorS2P(_)
CtorS2P(rs) == IF rs = <<>> THEN {} ELSE
  LET r == rs[Len(rs)] IN PutAll(CtorS2P(SubSeq(rs, 1, Len(rs) - 1)), AllP(r), r.p)
RECURSIVE CtorRPM(_)
CtorRPM(rs) == IF rs = <<>> THEN {} ELSE
  LET r == rs[Len(rs)] IN PutAll(CtorRPM(SubSeq(rs, 1, Len(rs) - 1)), AllU(r), r.p)
RECURSIVE CtorPat(_)
CtorPat(rs) == IF rs = <<>> THEN {} ELSE
  LET r == rs[Len(rs)]  m == CtorPat(SubSeq(rs, 1, Len(rs) - 1))
  IN IF HasPat(r) THEN Put(m, r.p, r.pat[1]) ELSE m

\* Converter.__init__ (api.py:848-877)
Construct(rs0, delim, strict) ==
  LET rs == StableSort(rs0) IN
  IF strict /\ ClashesU(rs) # {} THEN [out |-> <<"raise", "DuplicateURIPrefixes", ClashesU(rs)>>, conv |-> EmptyConv(delim)]
  ELSE IF strict /\ ClashesP(rs) # {} THEN [out |-> <<"raise", "DuplicatePrefixes", ClashesP(rs)>>, conv |-> EmptyConv(delim)]
  ELSE [out |-> Ok,
        conv |-> [delim |-> delim, recs |-> rs, pm |-> CtorPM(rs), s2p |-> CtorS2P(rs),
                  rpm |-> CtorRPM(rs), trie |-> CtorRPM(rs), pat |-> CtorPat(rs)]]
\* shorthand for a construction known to succeed
Fresh(rs, delim) == Construct(rs, delim, FALSE).conv

---------------------------------------------------------------------------
\* Incremental building (api.py:889-1020)
EqCS(a, b, cs) == IF cs THEN a = b ELSE CF(a) = CF(b)                \* _eq / _in
Matches(ext, r, cs) ==                                               \* _match_record, per record
  \/ \E a \in AllP(ext), b \in AllP(r) : EqCS(a, b, cs)
  \/ \E a \in AllU(ext), b \in AllU(r) : EqCS(a, b, cs)
\* _merge: unseen prefixes / URI prefixes of the new record become synonyms
Merge(ext, into) == [into EXCEPT !.ps = @ \cup (AllP(ext) \ AllP(into)),
                                 !.us = @ \cup (AllU(ext) \ AllU(into))]
\* _index: the five structures are updated one by one
IndexAdd(c, r) ==
  [c EXCEPT !.pm   = PutAll(@, AllP(r), r.u),
            !.s2p  = PutAll(@, AllP(r), r.p),
            !.rpm  = PutAll(@, AllU(r), r.p),
            !.trie = PutAll(@, AllU(r), r.p),
            !.pat  = IF HasPat(r) /\ ~Has(@, r.p) THEN Put(@, r.p, r.pat[1]) ELSE @]
\* the code identifies the matched record through Record._key; in a converter whose
\* records have distinct keys this is the matched record itself
MatchIdx(c, ext, cs) == {i \in 1..Len(c.recs) : Matches(ext, c.recs[i], cs)}
AddRecord(c, ext, cs, mg) ==
  LET m == MatchIdx(c, ext, cs) IN
  IF Cardinality(m) > 1 THEN [out |-> Raise("valueerror"), conv |-> c]
  ELSE IF Cardinality(m) = 1 THEN
       IF ~mg THEN [out |-> Raise("valueerror"), conv |-> c]
       ELSE LET i == CHOOSE i \in m : TRUE
                nr == Merge(ext, c.recs[i])
            IN [out |-> Ok, conv |-> IndexAdd([c EXCEPT !.recs[i] = nr], nr)]
  ELSE [out |-> Ok, conv |-> IndexAdd([c EXCEPT !.recs = Append(@, ext)], ext)]
\* coverage signature of a match: on which side, exactly or only up to letter case
\* which of the eight comparison sites of _match_record fire (new canonical / synonym  x  existing canonical / synonym,
\* on either side), and whether only up to letter case
MatchKinds(c, ext, cs) ==
  LET Hit(a, b) == IF a = b THEN {"="} ELSE IF ~cs /\ CF(a) = CF(b) THEN {"~"} ELSE {}
      Site(name, A, B) == {name \o h : h \in UNION {Hit(a, b) : a \in A, b \in B}}
  IN UNION {Site("Pcc", {ext.p}, {r.p}) \cup Site("Pcs", {ext.p}, r.ps) \cup Site("Psc", ext.ps, {r.p}) \cup Site("Pss", ext.ps, r.ps) \cup
            Site("Ucc", {ext.u}, {r.u}) \cup Site("Ucs", {ext.u}, r.us) \cup Site("Usc", ext.us, {r.u}) \cup Site("Uss", ext.us, r.us)
            : r \in RecSet(c)}
\* how URI prefixes nest: a synonym extending its own record's canonical prefix (or the reverse), nesting across
\* records, two prefixes differing only in their last character
NestKinds(rs) ==
  (IF \E i \in 1..Len(rs) : \E x \in rs[i].us : IsProperPfx(rs[i].u, x) THEN {"syn-extends-own-canon"} ELSE {}) \cup
  (IF \E i \in 1..Len(rs) : \E x \in rs[i].us : IsProperPfx(x, rs[i].u) THEN {"canon-extends-own-syn"} ELSE {}) \cup
  (IF \E i, j \in 1..Len(rs) : i # j /\ \E x \in AllU(rs[i]), y \in AllU(rs[j]) : IsProperPfx(x, y) THEN {"cross-nesting"} ELSE {}) \cup
  (IF \E i, j \in 1..Len(rs) : \E x \in AllU(rs[i]), y \in AllU(rs[j]) :
        x # y /\ Len(x) = Len(y) /\ Len(x) > 0 /\ SubSeq(x, 1, Len(x) - 1) = SubSeq(y, 1, Len(y) - 1) THEN {"last-char-differs"} ELSE {})
HasEmpty(rs) == \E i \in 1..Len(rs) : <<>> \in AllP(rs[i]) \/ <<>> \in AllU(rs[i])
\* add_prefix builds the Record first (pydantic validation may reject it)
AddPrefix(c, ext, cs, mg) ==
  IF ~ValidRec(ext) THEN [out |-> Raise("valueerror"), conv |-> c]
  ELSE AddRecord(c, ext, cs, mg)

---------------------------------------------------------------------------
\* Queries.  md = [s |-> strict, p |-> passthrough, rn |-> return_none]
Mode(s, p, rn) == [s |-> s, p |-> p, rn |-> rn]
Default == Mode(FALSE, FALSE, TRUE)
\* the shared tail `if strict: raise; if passthrough: return input; return None`
Tail3(md, input) == IF md.s THEN Raise("curies") ELSE IF md.p THEN Val(input) ELSE None1

FormatCurie(c, p, id) == p \o c.delim \o id                           \* api.py:1396

\* parse_uri core: StringTrie.longest_prefix_item (api.py:1642-1655)
ParseURIRaw(c, u) ==
  LET cand == {k \in Keys(c.trie) : IsPfx(k, u)} IN
  IF cand = {} THEN None1
  ELSE LET k == CHOOSE k \in cand : \A k2 \in cand : Len(k2) <= Len(k)
       IN Val(<<Get(c.trie, k), Drop(u, Len(k))>>)
ParseURI(c, u, md) ==
  LET r == ParseURIRaw(c, u) IN
  IF IsVal(r) THEN r ELSE IF md.s THEN Raise("curies") ELSE IF md.rn THEN None1 ELSE None2
Compress(c, u, md) ==
  LET r == ParseURIRaw(c, u) IN
  IF IsVal(r) THEN Val(FormatCurie(c, r[2][1], r[2][2])) ELSE Tail3(md, u)
IsURI(c, s) == IsVal(ParseURIRaw(c, s))

\* standardize_prefix (api.py:2046-2053) -- repaired `is not None` test (DESIGN F1)
StdPrefix(c, x, md) == IF Has(c.s2p, x) THEN Val(Get(c.s2p, x)) ELSE Tail3(md, x)

\* parse_curie (api.py:1871-1884) -- repaired: a missing delimiter is reported
\* like any other failure (DESIGN F2).  standardize_identifier is the identity.
ParseCurie(c, s, strict) ==
  IF ~Contains(s, c.delim) THEN (IF strict THEN Raise("curies") ELSE None1)
  ELSE LET p == PartBefore(s, c.delim)  id == PartAfter(s, c.delim) IN
       IF Has(c.s2p, p) THEN Val(<<Get(c.s2p, p), id>>)
       ELSE IF strict THEN Raise("curies") ELSE None1

\* expand_reference / expand_pair (api.py:1901-1943)
ExpandRef(c, p, id, md) ==
  IF Has(c.pm, p) THEN Val(Get(c.pm, p) \o id)
  ELSE IF md.s THEN Raise("curies") ELSE IF md.p THEN Val(FormatCurie(c, p, id)) ELSE None1
Expand(c, s, md) ==
  LET r == ParseCurie(c, s, FALSE) IN
  IF IsVal(r) THEN ExpandRef(c, r[2][1], r[2][2], md) ELSE Tail3(md, s)

\* get_record (api.py:2394-2402): first record in list order
GetRecordIdx(c, p) == {i \in 1..Len(c.recs) : p \in AllP(c.recs[i])}
HasRecord(c, p) == GetRecordIdx(c, p) # {}
GetRecord(c, p) == c.recs[CHOOSE i \in GetRecordIdx(c, p) : \A j \in GetRecordIdx(c, p) : i <= j]
\* expand_pair_all / expand_all: canonical first, then the synonyms (as a set: the
\* order among synonyms is not specified)
ExpandPairAll(c, p, id, strict) ==
  IF HasRecord(c, p) THEN LET r == GetRecord(c, p) IN Val(<<r.u \o id, {x \o id : x \in r.us}>>)
  ELSE IF strict THEN Raise("curies") ELSE None1
ExpandAll(c, s, strict) ==
  LET r == ParseCurie(c, s, FALSE) IN
  IF IsVal(r) THEN ExpandPairAll(c, r[2][1], r[2][2], FALSE)
  ELSE IF strict THEN Raise("curies") ELSE None1

StdCurie(c, s, md) ==
  LET r == ParseCurie(c, s, FALSE) IN
  IF IsVal(r) THEN Val(FormatCurie(c, r[2][1], r[2][2])) ELSE Tail3(md, s)
StdURI(c, u, md) ==
  LET r == ParseURIRaw(c, u) IN
  IF IsVal(r) THEN Val(Get(c.pm, r[2][1]) \o r[2][2]) ELSE Tail3(md, u)

\* is_curie: expand(s) is not None, ValueError -> False (api.py:1680-1683)
IsCurie(c, s) == IsVal(Expand(c, s, Default))
\* parse: URI first, then CURIE (api.py:1509-1523)
Parse(c, s, strict) ==
  IF IsURI(c, s) THEN ParseURIRaw(c, s)
  ELSE IF IsCurie(c, s) THEN ParseCurie(c, s, strict)
  ELSE IF strict THEN Raise("curies") ELSE None1
CompressOrStd(c, s, md) ==
  LET r == Parse(c, s, FALSE) IN
  IF IsVal(r) THEN Val(FormatCurie(c, r[2][1], r[2][2])) ELSE Tail3(md, s)
ExpandOrStd(c, s, md) ==
  LET r == Parse(c, s, FALSE) IN
  IF IsVal(r) THEN ExpandRef(c, r[2][1], r[2][2], md) ELSE Tail3(md, s)

\* introspection
GetPrefixes(c, syn) == IF syn THEN UNION {AllP(r) : r \in RecSet(c)} ELSE {r.p : r \in RecSet(c)}
GetURIPrefixes(c, syn) == IF syn THEN UNION {AllU(r) : r \in RecSet(c)} ELSE {r.u : r \in RecSet(c)}
RECURSIVE BimapSeq(_)
BimapSeq(rs) == IF rs = <<>> THEN {} ELSE Put(BimapSeq(SubSeq(rs, 1, Len(rs) - 1)), rs[Len(rs)].p, rs[Len(rs)].u)
Bimap(c) == BimapSeq(c.recs)
RECURSIVE RBimapSeq(_)
RBimapSeq(rs) == IF rs = <<>> THEN {} ELSE Put(RBimapSeq(SubSeq(rs, 1, Len(rs) - 1)), rs[Len(rs)].u, rs[Len(rs)].p)
ReverseBimap(c) == RBimapSeq(c.recs)

\* One entry point for the string-argument methods (used by the trace validator and
\* by the probe tables of the bounded models).
Ans(c, meth, md, x) ==
  CASE meth = "parse_uri"   -> ParseURI(c, x, md)
    [] meth = "compress"    -> Compress(c, x, md)
    [] meth = "is_uri"      -> Val(IsURI(c, x))
    [] meth = "parse_curie" -> ParseCurie(c, x, md.s)
    [] meth = "expand"      -> Expand(c, x, md)
    [] meth = "expand_all"  -> ExpandAll(c, x, md.s)
    [] meth = "is_curie"    -> Val(IsCurie(c, x))
    [] meth = "standardize_prefix" -> StdPrefix(c, x, md)
    [] meth = "standardize_curie"  -> StdCurie(c, x, md)
    [] meth = "standardize_uri"    -> StdURI(c, x, md)
    [] meth = "parse"       -> Parse(c, x, md.s)
    [] meth = "compress_or_standardize" -> CompressOrStd(c, x, md)
    [] meth = "expand_or_standardize"   -> ExpandOrStd(c, x, md)
    [] meth = "compress_strict" -> Compress(c, x, Mode(TRUE, FALSE, TRUE))
    [] meth = "expand_strict"   -> Expand(c, x, Mode(TRUE, FALSE, TRUE))
\* pair-argument methods
AnsPair(c, meth, md, p, id) ==
  CASE meth = "expand_pair"      -> ExpandRef(c, p, id, md)
    [] meth = "expand_reference" -> ExpandRef(c, p, id, md)
    [] meth = "expand_pair_all"  -> ExpandPairAll(c, p, id, md.s)
    [] meth = "format_curie"     -> Val(FormatCurie(c, p, id))
===========================================================================
