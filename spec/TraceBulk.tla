------------------------------ MODULE TraceBulk -----------------------------
(***************************************************************************)
(* Trace validation for bulk operations (C16).                             *)
(*  File operations: each recorded execution (begin, one event per cell    *)
(*  conversion with the state of the file at that moment, end) must be a   *)
(*  behaviour of the step machine of Bulk.tla: the trace actions ARE the   *)
(*  specification's actions (Begin, StepRow, WriteAll) constrained by the  *)
(*  logged fields.  Observations that disagree with the machine's state    *)
(*  are printed as FAIL lines; a trace the machine cannot follow stops     *)
(*  early (no DONE line; the harness reports the position).                *)
(*  Data-frame operations: element-wise comparison with the scalar method. *)
(***************************************************************************)
EXTENDS Naturals, Sequences, FiniteSets, TLC, Json, IOUtils

D == JsonDeserialize(IOEnv.TRACE_FILE)
S(i) == D.strs[i]
TFold(ch) == <<ch>>
VARIABLES disk, buf, pc, job, tid, l
INSTANCE Bulk WITH FoldMap <- TFold

SSet(js) == {S(js[k]) : k \in 1..Len(js)}
JRec(j) == Rec(S(j.p), S(j.u), SSet(j.ps), SSet(j.us), IF Len(j.pat) = 0 THEN <<>> ELSE <<S(j.pat[1])>>)
JMap(m) == {<<S(m[k][1]), S(m[k][2])>> : k \in 1..Len(m)}
JConv(j) == [delim |-> S(j.delim), recs |-> [k \in 1..Len(j.recs) |-> JRec(j.recs[k])], pm |-> JMap(j.pm), s2p |-> JMap(j.s2p),
             rpm |-> JMap(j.rpm), trie |-> JMap(j.trie), pat |-> JMap(j.pat)]
Convs == [k \in 1..Len(D.convs) |-> JConv(D.convs[k])]
JTable(t) == [i \in 1..Len(t) |-> [k \in 1..Len(t[i]) |-> S(t[i][k])]]
JOut(o) == IF o[1] = "val" THEN <<"val", S(o[2])>> ELSE IF o[1] = "raise" THEN <<"raise", o[2]>> ELSE <<o[1]>>
OutSame(spec, log) == IF spec[1] = "raise" THEN log[1] = "raise" /\ log[2] = spec[2] ELSE spec = log

Traces == D.traces
N == Len(Traces)
Ev == Traces[tid].events[l]
allvars == <<disk, buf, pc, job, tid, l>>

TInit == /\ tid \in 1..N /\ l = 1 /\ buf = <<>> /\ pc = "idle" /\ job = <<>>
         /\ disk = JTable(Traces[tid].events[1].table0)
IsEvent(e) == l <= Len(Traces[tid].events) /\ Ev.e = e /\ l' = l + 1 /\ UNCHANGED tid
TBegin == IsEvent("begin") /\ Begin(Convs[Ev.conv], BulkMethod(Ev.kind, Ev.amb), Mode(Ev.s, Ev.p, TRUE), Ev.header, Ev.col)
TRow == IsEvent("row") /\ StepRow
TEndOk == IsEvent("end") /\ Ev.out[1] = "ok" /\ WriteAll
\* a short row raises IndexError before the scalar method is called: there is no row event for it, so the
\* machine's failing StepRow is composed with the end event
TEndRaise == /\ IsEvent("end") /\ Ev.out[1] = "raise"
             /\ \/ pc = "failed" /\ UNCHANGED <<disk, buf, pc, job>>
                \/ /\ pc = "reading" /\ Len(buf) < Len(job.rows) /\ job.col > Len(job.rows[Len(buf) + 1])
                   /\ StepRow
                \* a raise the machine cannot explain (no cell failed, no short row is next): the event is consumed and
                \* reported -- the operation did not transform the column although every cell converts
                \/ /\ pc = "reading" /\ ~(Len(buf) < Len(job.rows) /\ job.col > Len(job.rows[Len(buf) + 1]))
                   /\ UNCHANGED <<disk, buf, pc, job>>
TNext == TBegin \/ TRow \/ TEndOk \/ TEndRaise
TSpec == TInit /\ [][TNext]_allvars

\* observations of the event just consumed (l - 1) against the machine's state
Prev == Traces[tid].events[l - 1]
ObsBad ==
  IF l = 1 THEN {}
  ELSE CASE Prev.e = "row" ->
              LET k == IF pc = "failed" THEN Len(buf) + 1 ELSE Len(buf)
                  row == job.rows[k] IN
              (IF Prev.i # k THEN {"bulk.row_order"} ELSE {}) \cup
              (IF job.col <= Len(row) /\ S(Prev.x) # row[job.col] THEN {"bulk.row_input"} ELSE {}) \cup
              (IF job.col <= Len(row) /\ ~OutSame(Cell(job.c, job.meth, job.md, row[job.col]), JOut(Prev.out)) THEN {"bulk.cell"} ELSE {}) \cup
              (IF ~Prev.disk_same THEN {"bulk.row_disk_unchanged"} ELSE {})
         [] Prev.e = "end" /\ Prev.out[1] = "ok" ->
              (IF JTable(Prev.table1) # disk THEN {"bulk.final_table"} ELSE {}) \cup
              (IF ~P_C16_done THEN {"mon.C16.done"} ELSE {})
         [] Prev.e = "end" /\ Prev.out[1] = "raise" /\ pc = "reading" ->
              {"mon.C16.raised_although_every_cell_converts"} \cup (IF ~Prev.bytes_same THEN {"bulk.after_raise_unchanged"} ELSE {})
         [] Prev.e = "end" /\ Prev.out[1] = "raise" ->
              (IF ~Prev.bytes_same THEN {"bulk.after_raise_unchanged"} ELSE {}) \cup
              (IF ~P_C16_atomic \/ ~P_C16_failpos THEN {"mon.C16.atomic"} ELSE {})
         [] OTHER -> {}
\* data frames: element-wise
PdBad(c) ==
  LET cv == Convs[c.conv]  meth == BulkMethod(c.kind, c.amb)  md == Mode(c.s, c.p, TRUE)
      want == [i \in 1..Len(c.col) |-> Cell(cv, meth, md, S(c.col[i]))]
      fails == \E i \in 1..Len(c.col) : want[i][1] = "raise" IN
  IF fails THEN (IF c.out[1] # "raise" THEN {"pd.raise"} ELSE {}) \cup (IF ~c.unchanged THEN {"pd.after_raise_unchanged"} ELSE {})
  ELSE (IF c.out[1] # "ok" THEN {"pd.raise"}
        ELSE (IF Len(c.result) # Len(c.col) \/ \E i \in 1..Len(c.col) : JOut(c.result[i]) # want[i] THEN {"pd.cellwise"} ELSE {}) \cup
             (IF ~c.others_same THEN {"pd.other_columns"} ELSE {}))

Report ==
  /\ \A b \in ObsBad : PrintT(<<"FAIL", tid, l - 1, <<b>>>>)
  /\ PrintT(<<"AT", tid, l>>)
  /\ (l = 1 /\ "pd" \in DOMAIN Traces[tid]) =>
        \A k \in 1..Len(Traces[tid].pd) : \A b \in PdBad(Traces[tid].pd[k]) : PrintT(<<"FAIL", tid, 1000 + k, <<b>>>>)
=============================================================================
