---------------------------- MODULE C12_Repoint ----------------------------
(***************************************************************************)
(* Machine-checked PROOF (TLAPS) of C12 for converters of ANY size over    *)
(* ANY strings: remap_uri_prefixes (uri = TRUE) and rewire (uri = FALSE)   *)
(* as specified in Derive.tla -- per record: the new URI prefix offered by *)
(* the mapping (through the canonical value if that is a key, else through *)
(* a synonym), the clash test against the INPUT's URI prefixes, the        *)
(* re-pointing -- in the record-set formulation that Apalache checks for   *)
(* <= 3 records (apalache/Ind_C12.tla).  Proved: the CURIE side is         *)
(* untouched, no URI prefix is lost, at most the mapped one is gained, a   *)
(* target owned by another record leaves the record untouched, an unused   *)
(* target or an own synonym becomes canonical, and the result is a strict  *)
(* converter again.                                                        *)
(* Check:  tlapm -I .. C12_Repoint.tla                                           *)
(***************************************************************************)
EXTENDS RepointRel, TLAPS

CONSTANTS recs0,      \* the records of the input converter (a set)
          m,          \* the mapping: a set of <<key, new URI prefix>> pairs
          uri         \* TRUE: remap_uri_prefixes (keys are URI prefixes), FALSE: rewire (keys are CURIE prefixes)

AllP(r) == AllP4(r)
AllU(r) == AllU4(r)
Keys == KeysOf(m)
KnownU0 == UNION {AllU(r) : r \in recs0}
KnownP0 == UNION {AllP(r) : r \in recs0}
Cand(r) == CandR(m, uri, r)
Repoint(r, new) == Repoint4(r, new)
Upd(r) == UpdR(KnownU0, m, uri, r)

RecShape(r) == r = [p |-> r.p, u |-> r.u, ps |-> r.ps, us |-> r.us]
ASSUME StrictInput ==
  /\ uri \in BOOLEAN
  /\ \A r \in recs0 : RecShape(r) /\ r.p \notin r.ps /\ r.u \notin r.us
  /\ \A r1 \in recs0 : \A r2 \in recs0 : r1 # r2 => (AllP(r1) \cap AllP(r2) = {} /\ AllU(r1) \cap AllU(r2) = {})
ASSUME GoodMap ==
  /\ \A a \in m : \A b \in m : (a[1] = b[1] \/ a[2] = b[2]) => a = b                 \* a function, injective
  /\ uri => Keys \cap {kv[2] : kv \in m} = {}                                      \* else remap_uri_prefixes raises TransitiveError
  /\ \A r \in recs0 : \A a \in Cand(r) : \A b \in Cand(r) : a = b                    \* not ambiguous

LEMMA Choice == \A r \in recs0 : Cand(r) # {} => (CHOOSE x \in Cand(r) : TRUE) \in Cand(r)
  OBVIOUS

\* per record: what the operation does to it
THEOREM PerRecord ==
  \A x \in recs0 :
    LET g == Upd(x) IN
    /\ g.p = x.p /\ g.ps = x.ps                                               \* CURIE side identical
    /\ AllU(x) \subseteq AllU(g)                                              \* keeps every URI prefix it had
    /\ AllU(g) \ AllU(x) \subseteq Cand(x)                                    \* gains at most the mapped new one
    /\ Cand(x) = {} => g = x
    /\ \A new \in Cand(x) :
         /\ (new \in KnownU0 \ AllU(x)) => g = x                              \* owned by another record: untouched
         /\ (new \notin KnownU0 \/ new \in AllU(x)) => g.u = new              \* unused or own synonym: canonical
    /\ g.u \notin g.us
<1> SUFFICES ASSUME NEW x \in recs0
             PROVE LET g == Upd(x) IN
                   /\ g.p = x.p /\ g.ps = x.ps /\ AllU(x) \subseteq AllU(g) /\ AllU(g) \ AllU(x) \subseteq Cand(x)
                   /\ Cand(x) = {} => g = x
                   /\ \A new \in Cand(x) : /\ (new \in KnownU0 \ AllU(x)) => g = x
                                           /\ (new \notin KnownU0 \/ new \in AllU(x)) => g.u = new
                   /\ g.u \notin g.us
  OBVIOUS
<1>0. RecShape(x) /\ x.u \notin x.us
  BY StrictInput
<1>1. CASE Cand(x) = {}
  BY <1>1, <1>0 DEF Upd, UpdR, Cand, CandR, AllU, AllU4
<1>2. CASE Cand(x) # {}
  <2> DEFINE new == CHOOSE y \in Cand(x) : TRUE
  <2>1. new \in Cand(x) /\ \A y \in Cand(x) : y = new
    BY <1>2, Choice, GoodMap
  <2>2. CASE ~uri /\ new = x.u
    BY <2>1, <2>2, <1>0, <1>2 DEF Upd, UpdR, Cand, CandR, AllU, AllU4, KnownU0
  <2>3. CASE ~(~uri /\ new = x.u) /\ new \in KnownU0 /\ new \notin x.us
    <3>1. Upd(x) = x
      BY <1>2, <2>3 DEF Upd, UpdR, Cand, Repoint
    <3> QED BY <3>1, <2>1, <2>3, <1>0 DEF AllU, AllU4, KnownU0
  <2>4. CASE ~(~uri /\ new = x.u) /\ ~(new \in KnownU0 /\ new \notin x.us)
    <3>1. Upd(x) = Repoint(x, new)
      BY <1>2, <2>4 DEF Upd, UpdR, Cand, Repoint
    <3> QED BY <3>1, <2>1, <2>4, <1>0 DEF Repoint, Repoint4, AllU, AllU4, KnownU0
  <2> QED BY <2>2, <2>3, <2>4
<1> QED BY <1>1, <1>2

\* a record gains a URI prefix only if no record of the input holds it, and the gain is offered through one of ITS keys
LEMMA Gain ==
  \A x \in recs0 : \A v \in AllU(Upd(x)) \ AllU(x) :
     /\ v \notin KnownU0
     /\ \E kv \in m : kv[2] = v /\ kv[1] \in (IF uri THEN AllU(x) ELSE AllP(x))
<1> SUFFICES ASSUME NEW x \in recs0, NEW v \in AllU(Upd(x)) \ AllU(x)
             PROVE /\ v \notin KnownU0 /\ \E kv \in m : kv[2] = v /\ kv[1] \in (IF uri THEN AllU(x) ELSE AllP(x))
  OBVIOUS
<1>1. v \in Cand(x)
  BY PerRecord
<1>2. \E kv \in m : kv[2] = v /\ kv[1] \in (IF uri THEN AllU(x) ELSE AllP(x))
  BY <1>1, StrictInput DEF Cand, CandR, Keys, KeysOf, AllU, AllU4, AllP, AllP4
<1>3. v \notin KnownU0
  <2> SUFFICES ASSUME v \in KnownU0 PROVE FALSE
    OBVIOUS
  <2>1. v \in KnownU0 \ AllU(x)
    OBVIOUS
  <2>2. Upd(x) = x
    BY <1>1, <2>1, PerRecord
  <2> QED BY <2>2
<1> QED BY <1>2, <1>3

\* the result is a strict converter again
THEOREM StrictAgain ==
  \A x1 \in recs0 : \A x2 \in recs0 :
     x1 # x2 => (AllU(Upd(x1)) \cap AllU(Upd(x2)) = {} /\ AllP(Upd(x1)) \cap AllP(Upd(x2)) = {})
<1> SUFFICES ASSUME NEW x1 \in recs0, NEW x2 \in recs0, x1 # x2
             PROVE AllU(Upd(x1)) \cap AllU(Upd(x2)) = {} /\ AllP(Upd(x1)) \cap AllP(Upd(x2)) = {}
  OBVIOUS
<1>1. AllP(Upd(x1)) = AllP(x1) /\ AllP(Upd(x2)) = AllP(x2)
  BY PerRecord DEF AllP, AllP4
<1>2. AllP(x1) \cap AllP(x2) = {} /\ AllU(x1) \cap AllU(x2) = {}
  BY StrictInput
<1>3. AllU(x1) \subseteq KnownU0 /\ AllU(x2) \subseteq KnownU0
  BY DEF KnownU0
<1>4. \A v \in AllU(Upd(x1)) : v \in AllU(x1) \/ v \notin KnownU0
  BY Gain
<1>5. \A v \in AllU(Upd(x2)) : v \in AllU(x2) \/ v \notin KnownU0
  BY Gain
<1>6. \A v : ~(v \in AllU(Upd(x1)) \ AllU(x1) /\ v \in AllU(Upd(x2)) \ AllU(x2))
  <2> SUFFICES ASSUME NEW v, v \in AllU(Upd(x1)) \ AllU(x1), v \in AllU(Upd(x2)) \ AllU(x2) PROVE FALSE
    OBVIOUS
  <2>1. PICK k1 \in m : k1[2] = v /\ k1[1] \in (IF uri THEN AllU(x1) ELSE AllP(x1))
    BY Gain
  <2>2. PICK k2 \in m : k2[2] = v /\ k2[1] \in (IF uri THEN AllU(x2) ELSE AllP(x2))
    BY Gain
  <2>3. k1 = k2
    BY <2>1, <2>2, GoodMap
  <2> QED BY <2>1, <2>2, <2>3, <1>2, StrictInput
<1> QED BY <1>1, <1>2, <1>3, <1>4, <1>5, <1>6

\* rewiring CURIE prefixes the converter does not know changes nothing
THEOREM UnknownKeys == (~uri /\ Keys \cap KnownP0 = {}) => \A x \in recs0 : Upd(x) = x
<1> SUFFICES ASSUME ~uri, Keys \cap KnownP0 = {}, NEW x \in recs0 PROVE Upd(x) = x
  OBVIOUS
<1>1. AllP(x) \subseteq KnownP0
  BY DEF KnownP0
<1>2. Cand(x) = {}
  BY <1>1 DEF Cand, CandR, Keys, KeysOf, AllP, AllP4
<1> QED BY <1>2 DEF Upd, UpdR, Cand
=============================================================================
