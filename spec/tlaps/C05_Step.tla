------------------------------ MODULE C05_Step ------------------------------
(***************************************************************************)
(* A machine-checked PROOF (TLAPS) of the core of C05 for converters of    *)
(* ANY size over ANY strings: one add_record step (StepRel.tla; the        *)
(* operational Conv!AddRecord is checked by TLC to be such a step)         *)
(* preserves "every CURIE prefix and every URI prefix has one owner" and   *)
(* "the prefix map is exactly what the records denote" (the other lookup   *)
(* structures have the same shape).  Strings and case folding are          *)
(* uninterpreted.  TLC explores tiny string pools exhaustively, Apalache   *)
(* <= 3 records symbolically; these theorems have no bound.                *)
(* Check:  tlapm -I .. C05_Step.tla      (85 obligations, a few seconds)   *)
(***************************************************************************)
EXTENDS StepRel, TLAPS

VARIABLES recs, ext, cs, mg, pm

Next == StepRel(recs, pm, ext, cs, mg, recs', pm') /\ UNCHANGED <<ext, cs, mg>>
Inv == OneOwner4(recs) /\ ValidRec4(ext) /\ pm = PMOf4(recs)

LEMMA MatchRefl == \A a, c : EqCS4(a, a, c)
  BY DEF EqCS4

THEOREM Step == Inv /\ Next => OneOwner4(recs')
<1> SUFFICES ASSUME Inv, Next PROVE OneOwner4(recs')
  OBVIOUS
<1> DEFINE m == {r \in recs : Matches4(ext, r, cs)}
<1>1. CASE (\E a \in m : \E b \in m : a # b) \/ (m # {} /\ ~mg)
  <2>1. recs' = recs
    BY <1>1 DEF Next, StepRel
  <2> QED BY <2>1 DEF Inv
<1>2. CASE ~((\E a \in m : \E b \in m : a # b) \/ (m # {} /\ ~mg)) /\ m = {}
  <2>1. recs' = recs \cup {ext}
    BY <1>2 DEF Next, StepRel
  <2>2. \A r \in recs : ~Matches4(ext, r, cs)
    BY <1>2
  <2>3. \A r \in recs : AllP4(ext) \cap AllP4(r) = {} /\ AllU4(ext) \cap AllU4(r) = {}
    BY <2>2, MatchRefl DEF Matches4, EqCS4
  <2> QED BY <2>1, <2>3 DEF Inv, OneOwner4
<1>3. CASE ~((\E a \in m : \E b \in m : a # b) \/ (m # {} /\ ~mg)) /\ m # {}
  <2>1. PICK r \in m : recs' = (recs \ {r}) \cup {Merged4(r, ext)}
    BY <1>3 DEF Next, StepRel
  <2>2. \A q \in recs : q # r => ~Matches4(ext, q, cs)
    BY <1>3
  <2>3. \A q \in recs : q # r => AllP4(ext) \cap AllP4(q) = {} /\ AllU4(ext) \cap AllU4(q) = {}
    BY <2>2, MatchRefl DEF Matches4, EqCS4
  <2>4. AllP4(Merged4(r, ext)) = AllP4(r) \cup AllP4(ext) /\ AllU4(Merged4(r, ext)) = AllU4(r) \cup AllU4(ext)
    BY DEF Merged4, AllP4, AllU4
  <2>5. ValidRec4(Merged4(r, ext))
    BY DEF Merged4, ValidRec4, AllP4, AllU4, Inv, OneOwner4
  <2>6. \A q \in recs : q # r => AllP4(Merged4(r, ext)) \cap AllP4(q) = {} /\ AllU4(Merged4(r, ext)) \cap AllU4(q) = {}
    BY <2>3, <2>4 DEF Inv, OneOwner4
  <2> QED BY <2>1, <2>5, <2>6 DEF Inv, OneOwner4
<1> QED BY <1>1, <1>2, <1>3

\* the prefix map stays exactly what the records denote
THEOREM StepIndex == Inv /\ Next => pm' = PMOf4(recs')
<1> SUFFICES ASSUME Inv, Next PROVE pm' = PMOf4(recs')
  OBVIOUS
<1> DEFINE m == {r \in recs : Matches4(ext, r, cs)}
<1>1. CASE (\E a \in m : \E b \in m : a # b) \/ (m # {} /\ ~mg)
  <2>1. recs' = recs /\ pm' = pm
    BY <1>1 DEF Next, StepRel
  <2> QED BY <2>1 DEF Inv
<1>2. CASE ~((\E a \in m : \E b \in m : a # b) \/ (m # {} /\ ~mg)) /\ m = {}
  <2>1. recs' = recs \cup {ext} /\ pm' = PutAll4(pm, AllP4(ext), ext.u)
    BY <1>2 DEF Next, StepRel
  <2>2. \A r \in recs : ~Matches4(ext, r, cs)
    BY <1>2
  <2>3. \A r \in recs : AllP4(ext) \cap AllP4(r) = {}
    BY <2>2, MatchRefl DEF Matches4, EqCS4
  <2>4. {kv \in PMOf4(recs) : kv[1] \notin AllP4(ext)} = PMOf4(recs)
    BY <2>3 DEF PMOf4
  <2>5. PMOf4(recs \cup {ext}) = PMOf4(recs) \cup {<<k, ext.u>> : k \in AllP4(ext)}
    BY DEF PMOf4
  <2> QED BY <2>1, <2>4, <2>5 DEF Inv, PutAll4
<1>3. CASE ~((\E a \in m : \E b \in m : a # b) \/ (m # {} /\ ~mg)) /\ m # {}
  <2>1. PICK r \in m : recs' = (recs \ {r}) \cup {Merged4(r, ext)} /\ pm' = PutAll4(pm, AllP4(Merged4(r, ext)), r.u)
    BY <1>3 DEF Next, StepRel
  <2>2. \A q \in recs : q # r => ~Matches4(ext, q, cs)
    BY <1>3
  <2>3. \A q \in recs : q # r => AllP4(ext) \cap AllP4(q) = {}
    BY <2>2, MatchRefl DEF Matches4, EqCS4
  <2>4. AllP4(Merged4(r, ext)) = AllP4(r) \cup AllP4(ext) /\ Merged4(r, ext).u = r.u
    BY DEF Merged4, AllP4
  <2>5. \A q \in recs : q # r => AllP4(Merged4(r, ext)) \cap AllP4(q) = {}
    BY <2>3, <2>4 DEF Inv, OneOwner4
  <2>6. PMOf4(recs) = PMOf4(recs \ {r}) \cup {<<k, r.u>> : k \in AllP4(r)}
    BY DEF PMOf4
  <2>7. {kv \in PMOf4(recs) : kv[1] \notin AllP4(Merged4(r, ext))} = PMOf4(recs \ {r})
    <3>1. \A kv \in PMOf4(recs \ {r}) : kv[1] \notin AllP4(Merged4(r, ext))
      BY <2>5 DEF PMOf4
    <3>2. \A kv \in {<<k, r.u>> : k \in AllP4(r)} : kv[1] \in AllP4(Merged4(r, ext))
      BY <2>4
    <3> QED BY <2>6, <3>1, <3>2
  <2>8. PMOf4((recs \ {r}) \cup {Merged4(r, ext)}) = PMOf4(recs \ {r}) \cup {<<k, r.u>> : k \in AllP4(Merged4(r, ext))}
    BY <2>4 DEF PMOf4
  <2> QED BY <2>1, <2>7, <2>8 DEF Inv, PutAll4
<1> QED BY <1>1, <1>2, <1>3
=============================================================================
