---------------------------- MODULE C16_Machine ----------------------------
(***************************************************************************)
(* Machine-checked PROOF (TLAPS) of the three clauses of C16 about the     *)
(* file helper's step machine (BulkMachine.tla; Bulk.tla instantiates it,  *)
(* TraceBulk.tla validates recorded executions against it) for tables of   *)
(* ANY length and uninterpreted cell semantics:                            *)
(*   Atomic   while rows are converted and after a failure the file is     *)
(*            what it was when the call began                              *)
(*   Done     after success the file is the header followed by the         *)
(*            converted rows, row by row                                   *)
(*   FailPos  a failure happens at the FIRST row that fails: every row     *)
(*            before it was converted, none of them failed                 *)
(* Check:  tlapm -I .. C16_Machine.tla                                     *)
(***************************************************************************)
EXTENDS BulkMachine, SequenceTheorems, TLAPS

CONSTANT RowSet
ASSUME ConvType == \A j, r : Conv(j, r) \in RowSet

Init == pc = "idle" /\ buf = <<>> /\ disk \in Seq(RowSet)
Next == \/ \E j : j.header \in Seq(RowSet) /\ j.rows \in Seq(RowSet) /\ BeginG(j)
        \/ StepRowG
        \/ WriteAllG
Spec == Init /\ [][Next]_mvars

Working == pc \in {"reading", "failed", "done"}
IndInv ==
  /\ pc \in {"idle", "reading", "failed", "done"}
  /\ buf \in Seq(RowSet)
  /\ Working => /\ job.header \in Seq(RowSet) /\ job.rows \in Seq(RowSet)
                /\ Len(buf) <= Len(job.rows)
                /\ \A i \in 1..Len(buf) : ~Fails(job, job.rows[i]) /\ buf[i] = Conv(job, job.rows[i])
  /\ pc \in {"reading", "failed"} => disk = job.header \o job.rows
  /\ pc = "failed" => Len(buf) < Len(job.rows) /\ Fails(job, job.rows[Len(buf) + 1])
  /\ pc = "done" => disk = job.header \o buf /\ Len(buf) = Len(job.rows)

\* the clauses of C16
Atomic == pc \in {"reading", "failed"} => disk = job.header \o job.rows
Done == pc = "done" => /\ disk = job.header \o buf /\ Len(buf) = Len(job.rows)
                       /\ \A i \in 1..Len(job.rows) : buf[i] = Conv(job, job.rows[i])
FailPos == pc = "failed" => /\ Len(buf) + 1 \in 1..Len(job.rows) /\ Fails(job, job.rows[Len(buf) + 1])
                            /\ \A i \in 1..Len(buf) : ~Fails(job, job.rows[i])

LEMMA InitInv == Init => IndInv
  BY DEF Init, IndInv, Working

LEMMA StepInv == IndInv /\ [Next]_mvars => IndInv'
<1> SUFFICES ASSUME IndInv, [Next]_mvars PROVE IndInv'
  OBVIOUS
<1>1. CASE \E j : j.header \in Seq(RowSet) /\ j.rows \in Seq(RowSet) /\ BeginG(j)
  <2>1. PICK j : j.header \in Seq(RowSet) /\ j.rows \in Seq(RowSet) /\ BeginG(j)
    BY <1>1
  <2>2. pc' = "reading" /\ buf' = <<>> /\ job' = j /\ disk' = disk /\ disk = j.header \o j.rows
    BY <2>1 DEF BeginG
  <2>3. Len(buf') = 0 /\ buf' \in Seq(RowSet) /\ Len(j.rows) \in Nat
    BY <2>1, <2>2, LenProperties, EmptySeq
  <2> QED BY <2>1, <2>2, <2>3 DEF IndInv, Working
<1>2. CASE StepRowG
  <2>0. pc = "reading" /\ Len(buf) < Len(job.rows) /\ Len(buf) \in Nat /\ Len(job.rows) \in Nat
    BY <1>2, LenProperties DEF StepRowG, IndInv, Working
  <2>1. CASE Fails(job, job.rows[Len(buf) + 1])
    <3>1. pc' = "failed" /\ UNCHANGED <<disk, buf, job>>
      BY <1>2, <2>1 DEF StepRowG
    <3> QED BY <3>1, <2>0, <2>1 DEF IndInv, Working
  <2>2. CASE ~Fails(job, job.rows[Len(buf) + 1])
    <3>1. buf' = Append(buf, Conv(job, job.rows[Len(buf) + 1])) /\ UNCHANGED <<disk, pc, job>>
      BY <1>2, <2>2 DEF StepRowG
    <3>2. buf' \in Seq(RowSet) /\ Len(buf') = Len(buf) + 1
      BY <3>1, ConvType, AppendProperties DEF IndInv
    <3>3. \A i \in 1..Len(buf') : ~Fails(job, job.rows[i]) /\ buf'[i] = Conv(job, job.rows[i])
      <4> SUFFICES ASSUME NEW i \in 1..Len(buf') PROVE ~Fails(job, job.rows[i]) /\ buf'[i] = Conv(job, job.rows[i])
        OBVIOUS
      <4>1. CASE i \in 1..Len(buf)
        <5>1. buf \in Seq(RowSet) /\ Conv(job, job.rows[Len(buf) + 1]) \in RowSet
          BY ConvType DEF IndInv
        <5>2. buf'[i] = buf[i]
          BY <4>1, <3>1, <5>1, AppendProperties
        <5>3. ~Fails(job, job.rows[i]) /\ buf[i] = Conv(job, job.rows[i])
          BY <4>1, <2>0 DEF IndInv, Working
        <5> QED BY <5>2, <5>3
      <4>2. CASE i = Len(buf) + 1
        BY <4>2, <3>1, <2>2, AppendProperties, ConvType DEF IndInv
      <4> QED BY <4>1, <4>2, <3>2, <2>0
    <3> QED BY <3>1, <3>2, <3>3, <2>0 DEF IndInv, Working
  <2> QED BY <2>1, <2>2
<1>3. CASE WriteAllG
  <2>1. pc = "reading" /\ Len(buf) = Len(job.rows) /\ disk' = job.header \o buf /\ pc' = "done" /\ UNCHANGED <<buf, job>>
    BY <1>3 DEF WriteAllG
  <2> QED BY <2>1 DEF IndInv, Working
<1>4. CASE UNCHANGED mvars
  BY <1>4 DEF IndInv, Working, mvars
<1> QED BY <1>1, <1>2, <1>3, <1>4 DEF Next

THEOREM Invariance == Spec => []IndInv
  BY InitInv, StepInv, PTL DEF Spec

THEOREM Clauses == IndInv => Atomic /\ Done /\ FailPos
<1> SUFFICES ASSUME IndInv PROVE Atomic /\ Done /\ FailPos
  OBVIOUS
<1>1. Atomic
  BY DEF IndInv, Atomic
<1>2. Done
  BY DEF IndInv, Done, Working
<1>3. FailPos
  <2> SUFFICES ASSUME pc = "failed"
               PROVE /\ Len(buf) + 1 \in 1..Len(job.rows) /\ Fails(job, job.rows[Len(buf) + 1])
                     /\ \A i \in 1..Len(buf) : ~Fails(job, job.rows[i])
    BY DEF FailPos
  <2>1. Len(buf) \in Nat /\ Len(job.rows) \in Nat /\ Len(buf) < Len(job.rows)
    BY LenProperties DEF IndInv, Working
  <2> QED BY <2>1 DEF IndInv, Working
<1> QED BY <1>1, <1>2, <1>3

THEOREM C16 == Spec => [](Atomic /\ Done /\ FailPos)
  BY Invariance, Clauses, PTL
=============================================================================
