------------------------------ MODULE C09_Step ------------------------------
(***************************************************************************)
(* Machine-checked PROOFS (TLAPS) about chain, for converters of ANY size  *)
(* over ANY strings.  chain(c1..cn) folds add_record(merge=True) over the  *)
(* inputs' records (Derive.tla: ChainRecs); one step of that fold is a     *)
(* StepRel step with merge = TRUE (StepRel.tla), so C05_Step's theorems    *)
(* already give "one owner per prefix" and "the prefix map is what the     *)
(* records denote" for every intermediate and final converter.  Proved     *)
(* here, with `acc` the converter built so far and `seen` the input        *)
(* records consumed so far:                                                *)
(*   Known      nothing lost, nothing invented                             *)
(*   Together   whatever shared a record in an input shares one in acc     *)
(*   Earlier    a step never changes the canonical pair of a record        *)
(*              already there (earlier converters win)                     *)
(*   Canonical  case sensitive: every canonical pair comes from an input   *)
(*   NoCaseDup  case insensitive: no two records equal up to case          *)
(* Check:  tlapm -I .. C09_Step.tla                                        *)
(***************************************************************************)
EXTENDS StepRel, TLAPS

VARIABLES acc, seen, ext, cs, pm

KnownP4(rs) == UNION {AllP4(r) : r \in rs}
KnownU4(rs) == UNION {AllU4(r) : r \in rs}
Contained4(x, g) == AllP4(x) \subseteq AllP4(g) /\ AllU4(x) \subseteq AllU4(g)
CaseClashFree4(rs) ==
  \A r1 \in rs : \A r2 \in rs : r1 # r2 =>
     /\ \A a \in AllP4(r1) : \A b \in AllP4(r2) : Fold(a) # Fold(b)
     /\ \A a \in AllU4(r1) : \A b \in AllU4(r2) : Fold(a) # Fold(b)

Bridges == LET m == {r \in acc : Matches4(ext, r, cs)} IN \E a \in m : \E b \in m : a # b
\* one step of chain: the next input record is added with merge = TRUE; a record bridging two records raises
Next == /\ StepRel(acc, pm, ext, cs, TRUE, acc', pm')
        /\ seen' = IF Bridges THEN seen ELSE seen \cup {ext}
        /\ UNCHANGED <<ext, cs>>

Inv == /\ OneOwner4(acc) /\ ValidRec4(ext)
       /\ KnownP4(acc) = KnownP4(seen) /\ KnownU4(acc) = KnownU4(seen)
       /\ \A x \in seen : \E g \in acc : Contained4(x, g)
       /\ cs => \A g \in acc : \E x \in seen : x.p = g.p /\ x.u = g.u /\ Contained4(x, g)
       /\ ~cs => CaseClashFree4(acc)

LEMMA MatchRefl == \A a, c : EqCS4(a, a, c)
  BY DEF EqCS4

\* the three shapes of a step
LEMMA Shapes ==
  ASSUME Inv, Next
  PROVE  LET m == {r \in acc : Matches4(ext, r, cs)} IN
         \/ Bridges /\ acc' = acc /\ seen' = seen
         \/ ~Bridges /\ m = {} /\ acc' = acc \cup {ext} /\ seen' = seen \cup {ext}
         \/ ~Bridges /\ \E r \in m : /\ acc' = (acc \ {r}) \cup {Merged4(r, ext)} /\ seen' = seen \cup {ext}
                                    /\ \A q \in acc : q # r => ~Matches4(ext, q, cs)
  BY DEF Next, StepRel, Bridges

LEMMA MergedNames ==
  \A r, e : AllP4(Merged4(r, e)) = AllP4(r) \cup AllP4(e) /\ AllU4(Merged4(r, e)) = AllU4(r) \cup AllU4(e)
            /\ Merged4(r, e).p = r.p /\ Merged4(r, e).u = r.u
  BY DEF Merged4, AllP4, AllU4

THEOREM Known == Inv /\ Next => KnownP4(acc') = KnownP4(seen') /\ KnownU4(acc') = KnownU4(seen')
<1> SUFFICES ASSUME Inv, Next PROVE KnownP4(acc') = KnownP4(seen') /\ KnownU4(acc') = KnownU4(seen')
  OBVIOUS
<1> DEFINE m == {r \in acc : Matches4(ext, r, cs)}
<1>1. CASE Bridges /\ acc' = acc /\ seen' = seen
  BY <1>1 DEF Inv
<1>2. CASE ~Bridges /\ m = {} /\ acc' = acc \cup {ext} /\ seen' = seen \cup {ext}
  <2>1. KnownP4(acc \cup {ext}) = KnownP4(acc) \cup AllP4(ext) /\ KnownU4(acc \cup {ext}) = KnownU4(acc) \cup AllU4(ext)
    BY DEF KnownP4, KnownU4
  <2>2. KnownP4(seen \cup {ext}) = KnownP4(seen) \cup AllP4(ext) /\ KnownU4(seen \cup {ext}) = KnownU4(seen) \cup AllU4(ext)
    BY DEF KnownP4, KnownU4
  <2> QED BY <1>2, <2>1, <2>2 DEF Inv
<1>3. CASE ~Bridges /\ \E r \in m : /\ acc' = (acc \ {r}) \cup {Merged4(r, ext)} /\ seen' = seen \cup {ext}
                                   /\ \A q \in acc : q # r => ~Matches4(ext, q, cs)
  <2>1. PICK r \in m : acc' = (acc \ {r}) \cup {Merged4(r, ext)} /\ seen' = seen \cup {ext}
    BY <1>3
  <2>2. KnownP4((acc \ {r}) \cup {Merged4(r, ext)}) = KnownP4(acc) \cup AllP4(ext)
    <3>1. KnownP4((acc \ {r}) \cup {Merged4(r, ext)}) = KnownP4(acc \ {r}) \cup AllP4(Merged4(r, ext))
      BY DEF KnownP4
    <3>2. KnownP4(acc) = KnownP4(acc \ {r}) \cup AllP4(r)
      BY DEF KnownP4
    <3> QED BY <3>1, <3>2, MergedNames
  <2>3. KnownU4((acc \ {r}) \cup {Merged4(r, ext)}) = KnownU4(acc) \cup AllU4(ext)
    <3>1. KnownU4((acc \ {r}) \cup {Merged4(r, ext)}) = KnownU4(acc \ {r}) \cup AllU4(Merged4(r, ext))
      BY DEF KnownU4
    <3>2. KnownU4(acc) = KnownU4(acc \ {r}) \cup AllU4(r)
      BY DEF KnownU4
    <3> QED BY <3>1, <3>2, MergedNames
  <2>4. KnownP4(seen \cup {ext}) = KnownP4(seen) \cup AllP4(ext) /\ KnownU4(seen \cup {ext}) = KnownU4(seen) \cup AllU4(ext)
    BY DEF KnownP4, KnownU4
  <2> QED BY <2>1, <2>2, <2>3, <2>4 DEF Inv
<1> QED BY <1>1, <1>2, <1>3, Shapes

THEOREM Earlier == Inv /\ Next => \A g \in acc : \E h \in acc' : h.p = g.p /\ h.u = g.u /\ Contained4(g, h)
<1> SUFFICES ASSUME Inv, Next, NEW g \in acc PROVE \E h \in acc' : h.p = g.p /\ h.u = g.u /\ Contained4(g, h)
  OBVIOUS
<1> DEFINE m == {r \in acc : Matches4(ext, r, cs)}
<1>0. Contained4(g, g)
  BY DEF Contained4
<1>1. CASE Bridges /\ acc' = acc /\ seen' = seen
  BY <1>1, <1>0
<1>2. CASE ~Bridges /\ m = {} /\ acc' = acc \cup {ext} /\ seen' = seen \cup {ext}
  BY <1>2, <1>0
<1>3. CASE ~Bridges /\ \E r \in m : /\ acc' = (acc \ {r}) \cup {Merged4(r, ext)} /\ seen' = seen \cup {ext}
                                   /\ \A q \in acc : q # r => ~Matches4(ext, q, cs)
  <2>1. PICK r \in m : acc' = (acc \ {r}) \cup {Merged4(r, ext)}
    BY <1>3
  <2>2. CASE g = r
    <3>1. Merged4(r, ext) \in acc' /\ Contained4(r, Merged4(r, ext))
      BY <2>1, MergedNames DEF Contained4
    <3> QED BY <3>1, <2>2, MergedNames
  <2>3. CASE g # r
    BY <2>1, <2>3, <1>0
  <2> QED BY <2>2, <2>3
<1> QED BY <1>1, <1>2, <1>3, Shapes

THEOREM Together == Inv /\ Next => \A x \in seen' : \E g \in acc' : Contained4(x, g)
<1> SUFFICES ASSUME Inv, Next, NEW x \in seen' PROVE \E g \in acc' : Contained4(x, g)
  OBVIOUS
<1> DEFINE m == {r \in acc : Matches4(ext, r, cs)}
<1>a. \A g \in acc : \E h \in acc' : Contained4(g, h)
  BY Earlier
<1>b. \A y \in seen : \E h \in acc' : Contained4(y, h)
  <2> SUFFICES ASSUME NEW y \in seen PROVE \E h \in acc' : Contained4(y, h)
    OBVIOUS
  <2>1. PICK g \in acc : Contained4(y, g)
    BY DEF Inv
  <2>2. PICK h \in acc' : Contained4(g, h)
    BY <1>a
  <2> QED BY <2>1, <2>2 DEF Contained4
<1>1. CASE Bridges /\ acc' = acc /\ seen' = seen
  BY <1>1, <1>b
<1>2. CASE ~Bridges /\ m = {} /\ acc' = acc \cup {ext} /\ seen' = seen \cup {ext}
  <2>1. CASE x = ext
    BY <1>2, <2>1 DEF Contained4
  <2>2. CASE x \in seen
    BY <2>2, <1>b
  <2> QED BY <1>2, <2>1, <2>2
<1>3. CASE ~Bridges /\ \E r \in m : /\ acc' = (acc \ {r}) \cup {Merged4(r, ext)} /\ seen' = seen \cup {ext}
                                   /\ \A q \in acc : q # r => ~Matches4(ext, q, cs)
  <2>0. PICK r \in m : acc' = (acc \ {r}) \cup {Merged4(r, ext)} /\ seen' = seen \cup {ext}
    BY <1>3
  <2>1. CASE x = ext
    <3>1. Merged4(r, ext) \in acc' /\ Contained4(ext, Merged4(r, ext))
      BY <2>0, MergedNames DEF Contained4
    <3> QED BY <3>1, <2>1
  <2>2. CASE x \in seen
    BY <2>2, <1>b
  <2> QED BY <2>0, <2>1, <2>2
<1> QED BY <1>1, <1>2, <1>3, Shapes

\* case sensitive: every canonical pair of the accumulated converter is the canonical pair of an input record it contains
THEOREM Canonical == Inv /\ Next /\ cs => \A g \in acc' : \E x \in seen' : x.p = g.p /\ x.u = g.u /\ Contained4(x, g)
<1> SUFFICES ASSUME Inv, Next, cs, NEW g \in acc' PROVE \E x \in seen' : x.p = g.p /\ x.u = g.u /\ Contained4(x, g)
  OBVIOUS
<1> DEFINE m == {r \in acc : Matches4(ext, r, cs)}
<1>a. \A h \in acc : \E x \in seen : x.p = h.p /\ x.u = h.u /\ Contained4(x, h)
  BY DEF Inv
<1>1. CASE Bridges /\ acc' = acc /\ seen' = seen
  BY <1>1, <1>a
<1>2. CASE ~Bridges /\ m = {} /\ acc' = acc \cup {ext} /\ seen' = seen \cup {ext}
  <2>1. CASE g = ext
    BY <1>2, <2>1 DEF Contained4
  <2>2. CASE g \in acc
    BY <1>2, <2>2, <1>a
  <2> QED BY <1>2, <2>1, <2>2
<1>3. CASE ~Bridges /\ \E r \in m : /\ acc' = (acc \ {r}) \cup {Merged4(r, ext)} /\ seen' = seen \cup {ext}
                                   /\ \A q \in acc : q # r => ~Matches4(ext, q, cs)
  <2>0. PICK r \in m : acc' = (acc \ {r}) \cup {Merged4(r, ext)} /\ seen' = seen \cup {ext}
    BY <1>3
  <2>1. CASE g = Merged4(r, ext)
    <3>1. PICK x \in seen : x.p = r.p /\ x.u = r.u /\ Contained4(x, r)
      BY <1>a
    <3>2. Contained4(x, Merged4(r, ext)) /\ Merged4(r, ext).p = r.p /\ Merged4(r, ext).u = r.u
      BY <3>1, MergedNames DEF Contained4
    <3> QED BY <2>0, <2>1, <3>1, <3>2
  <2>2. CASE g \in acc \ {r}
    BY <2>0, <2>2, <1>a
  <2> QED BY <2>0, <2>1, <2>2
<1> QED BY <1>1, <1>2, <1>3, Shapes

\* case insensitive: no two records of the accumulated converter hold names equal up to case
THEOREM NoCaseDup == Inv /\ Next /\ ~cs => CaseClashFree4(acc')
<1> SUFFICES ASSUME Inv, Next, ~cs PROVE CaseClashFree4(acc')
  OBVIOUS
<1> DEFINE m == {r \in acc : Matches4(ext, r, cs)}
<1>a. CaseClashFree4(acc)
  BY DEF Inv
\* a record that does not match ext shares no name with it, not even up to case
<1>b. \A q \in acc : ~Matches4(ext, q, cs) =>
         /\ \A a \in AllP4(ext) : \A b \in AllP4(q) : Fold(a) # Fold(b)
         /\ \A a \in AllU4(ext) : \A b \in AllU4(q) : Fold(a) # Fold(b)
  BY DEF Matches4, EqCS4
<1>1. CASE Bridges /\ acc' = acc /\ seen' = seen
  BY <1>1, <1>a
<1>2. CASE ~Bridges /\ m = {} /\ acc' = acc \cup {ext} /\ seen' = seen \cup {ext}
  <2>1. \A q \in acc : ~Matches4(ext, q, cs)
    BY <1>2
  <2> QED BY <1>2, <2>1, <1>a, <1>b DEF CaseClashFree4
<1>3. CASE ~Bridges /\ \E r \in m : /\ acc' = (acc \ {r}) \cup {Merged4(r, ext)} /\ seen' = seen \cup {ext}
                                   /\ \A q \in acc : q # r => ~Matches4(ext, q, cs)
  <2>0. PICK r \in m : /\ acc' = (acc \ {r}) \cup {Merged4(r, ext)}
                        /\ \A q \in acc : q # r => ~Matches4(ext, q, cs)
    BY <1>3
  <2>1. \A q \in acc \ {r} :
           /\ \A a \in AllP4(Merged4(r, ext)) : \A b \in AllP4(q) : Fold(a) # Fold(b)
           /\ \A a \in AllU4(Merged4(r, ext)) : \A b \in AllU4(q) : Fold(a) # Fold(b)
    <3> SUFFICES ASSUME NEW q \in acc \ {r}
                 PROVE /\ \A a \in AllP4(Merged4(r, ext)) : \A b \in AllP4(q) : Fold(a) # Fold(b)
                       /\ \A a \in AllU4(Merged4(r, ext)) : \A b \in AllU4(q) : Fold(a) # Fold(b)
      OBVIOUS
    <3>1. /\ \A a \in AllP4(ext) : \A b \in AllP4(q) : Fold(a) # Fold(b)
          /\ \A a \in AllU4(ext) : \A b \in AllU4(q) : Fold(a) # Fold(b)
      BY <2>0, <1>b
    <3>2. /\ \A a \in AllP4(r) : \A b \in AllP4(q) : Fold(a) # Fold(b)
          /\ \A a \in AllU4(r) : \A b \in AllU4(q) : Fold(a) # Fold(b)
      BY <1>a DEF CaseClashFree4
    <3> QED BY <3>1, <3>2, MergedNames
  <2> QED BY <2>0, <2>1, <1>a DEF CaseClashFree4
<1> QED BY <1>1, <1>2, <1>3, Shapes
=============================================================================
