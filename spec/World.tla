------------------------------- MODULE World ------------------------------
(***************************************************************************)
(* The state machine: a growing list of live converters, manipulated by    *)
(* the public API.  One action per public call; each appends the call to   *)
(* `hist` (so that TLC's state dump doubles as a list of behaviours to     *)
(* replay on the implementation) and leaves the outcome in `last`.         *)
(* The bounded models (mc/MC_*.tla) choose which actions are enabled and   *)
(* over which argument pools.                                              *)
(***************************************************************************)
EXTENDS DeriveProps

VARIABLES convs,     \* sequence of converter values; position = converter id
          hist,      \* sequence of operations performed so far
          last,      \* outcome of the last operation (<<>> initially)
          sigs       \* one coverage signature per operation: which branches of the specification it took
                     \* (used to pick, for replay on the implementation, behaviours of every kind)
vars == <<convs, hist, last, sigs>>

Init == convs = <<>> /\ hist = <<>> /\ last = <<>> /\ sigs = <<>>

OutKind(o) == IF o[1] = "raise" THEN <<"raise", o[2]>> ELSE o

\* Converter(records, delimiter=d)  (strict)
ANew(rs, d) ==
  LET r == Construct(rs, d, TRUE) IN
  /\ hist' = Append(hist, [k |-> "new", recs |-> rs, delim |-> d])
  /\ last' = OutKind(r.out)
  /\ sigs' = Append(sigs, <<"new", OutKind(r.out), Len(rs), HasEmpty(rs), \E i \in 1..Len(rs) : rs[i].ps # {}, NestKinds(rs)>>)
  /\ convs' = IF r.out = Ok THEN Append(convs, r.conv) ELSE convs

\* convs[i].add_record(ext, case_sensitive=cs, merge=mg)   (via = "record" | "prefix")
AAdd(i, ext, cs, mg, via) ==
  LET r == IF via = "prefix" THEN AddPrefix(convs[i], ext, cs, mg) ELSE AddRecord(convs[i], ext, cs, mg) IN
  /\ hist' = Append(hist, [k |-> "add", i |-> i, rec |-> ext, cs |-> cs, mg |-> mg, via |-> via])
  /\ last' = r.out
  /\ sigs' = Append(sigs, <<"add", r.out[1], IF Cardinality(MatchIdx(convs[i], ext, cs)) > 1 THEN 2 ELSE Cardinality(MatchIdx(convs[i], ext, cs)),
                            cs, mg, MatchKinds(convs[i], ext, cs),
                            \E k \in MatchIdx(convs[i], ext, cs) : ~(AllP(ext) \subseteq AllP(convs[i].recs[k]) /\ AllU(ext) \subseteq AllU(convs[i].recs[k]))>>)
  /\ convs' = [convs EXCEPT ![i] = r.conv]

\* chain([convs[i] : i in is], case_sensitive=cs)
AChain(is, cs) ==
  LET r == Chain([k \in 1..Len(is) |-> convs[is[k]]], cs) IN
  /\ hist' = Append(hist, [k |-> "chain", is |-> is, cs |-> cs])
  /\ last' = r.out
  /\ sigs' = Append(sigs, <<"chain", r.out[1], cs, Len(is),
                            IF r.out = Ok THEN Len(ConcatRecs([k \in 1..Len(is) |-> convs[is[k]]])) - Len(r.conv.recs) ELSE 0,
                            ChainKinds(EmptyConv(DefaultDelim), ConcatRecs([k \in 1..Len(is) |-> convs[is[k]]]), cs)>>)
  /\ convs' = IF r.out = Ok THEN Append(convs, r.conv) ELSE convs

ASub(i, P) ==
  LET r == Subconverter(convs[i], P) IN
  /\ hist' = Append(hist, [k |-> "sub", i |-> i, P |-> P])
  /\ last' = OutKind(r.out)
  /\ sigs' = Append(sigs, <<"sub", P = {}, \E x \in RecSet(convs[i]) : x.p \in P, \E x \in RecSet(convs[i]) : x.ps \cap P # {},
                            P \ KnownP(convs[i]) # {}>>)
  /\ convs' = IF r.out = Ok THEN Append(convs, r.conv) ELSE convs

ARemap(kind, i, m) ==
  LET r == CASE kind = "remap_curie" -> RemapCurie(convs[i], m)
             [] kind = "remap_uri"   -> RemapURI(convs[i], m)
             [] kind = "rewire"      -> Rewire(convs[i], m) IN
  /\ hist' = Append(hist, [k |-> kind, i |-> i, m |-> m])
  /\ last' = r.out
  /\ sigs' = Append(sigs, IF kind = "remap_curie" THEN <<kind, RemapBranches(convs[i], m), <<>> \in KnownP(convs[i]), <<>> \in (MKeys(m) \cup MVals(m))>>
                          ELSE <<kind, r.out[1], RepointBranches(convs[i], m, kind = "remap_uri")>>)
  /\ convs' = IF r.out = Ok THEN Append(convs, r.conv) ELSE convs

---------------------------------------------------------------------------
\* State invariants over every live converter
Live == {convs[i] : i \in 1..Len(convs)}
Inv_OneOwner == \A c \in Live : P_C05_inv(c)

\* C10 as an action property: a step never changes a converter other than the one it
\* is applied to (derivations only append).
P_C10 == [][ \A i \in 1..Len(convs) :
               (i <= Len(convs') /\ convs'[i] # convs[i]) =>
                  (hist'[Len(hist')].k = "add" /\ hist'[Len(hist')].i = i) ]_vars
===========================================================================
