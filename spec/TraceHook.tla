------------------------------ MODULE TraceHook -----------------------------
(***************************************************************************)
(* C07 on converters the specification does NOT model operationally:       *)
(* subclasses of Converter that override the documented hook               *)
(* standardize_identifier (rewrite or reject identifiers).  Only the part  *)
(* of C07 that relates ANSWERS TO ANSWERS is evaluated, on logged values:  *)
(*   is_uri(s)   <=>  compress(s) is a value  <=>  parse_uri(s) is a value *)
(*   is_curie(s) <=>  expand(s) is a value                                 *)
(*   parse(s)    =    parse_uri(s) if is_uri(s), else parse_curie(s) if    *)
(*                    is_curie(s), else nothing                            *)
(*   compress_or_standardize(s) = the CURIE of parse(s)                    *)
(*   compress_strict / expand_strict = the strict=True calls (raw)         *)
(* Each call is one row {x, delim, a: method -> outcome}.                  *)
(***************************************************************************)
EXTENDS Naturals, Sequences, FiniteSets, TLC, Json, IOUtils
D == JsonDeserialize(IOEnv.TRACE_FILE)
S(i) == D.strs[i]
IsVal(o) == o[1] = "val"
Has(c, k) == k \in DOMAIN c.a
CallBad(c) ==
  LET a == c.a  d == S(c.delim) IN
  (IF a["is_uri"][1] # "val" \/ a["is_curie"][1] # "val" THEN {"mon.C07.hook.predicates_raise"} ELSE
   LET isuri == a["is_uri"][2]  iscurie == a["is_curie"][2] IN
   (IF isuri # IsVal(a["compress"]) \/ isuri # IsVal(a["parse_uri"]) THEN {"mon.C07.hook.is_uri"} ELSE {}) \cup
   (IF iscurie # IsVal(a["expand"]) THEN {"mon.C07.hook.is_curie"} ELSE {}) \cup
   (IF a["parse"] # (IF isuri THEN a["parse_uri"] ELSE IF iscurie THEN a["parse_curie"] ELSE <<"none">>) THEN {"mon.C07.hook.parse"} ELSE {}) \cup
   (IF IsVal(a["parse"])
    THEN (IF ~IsVal(a["compress_or_standardize"]) \/ S(a["compress_or_standardize"][2]) # S(a["parse"][2][1]) \o d \o S(a["parse"][2][2])
          THEN {"mon.C07.hook.compress_or_standardize"} ELSE {})
    ELSE (IF a["compress_or_standardize"] # <<"none">> THEN {"mon.C07.hook.compress_or_standardize"} ELSE {}))) \cup
  (IF a["compress_strict"] # a["compress@s"] THEN {"mon.C07.hook.compress_strict"} ELSE {}) \cup
  (IF a["expand_strict"] # a["expand@s"] THEN {"mon.C07.hook.expand_strict"} ELSE {})
Groups == D.groups
VARIABLES g, step
fvars == <<g, step>>
FInit == g \in 1..Len(Groups) /\ step = 0
FNext == step = 0 /\ step' = 1 /\ UNCHANGED g
FSpec == FInit /\ [][FNext]_fvars
Report == step = 1 =>
   /\ \A k \in 1..Len(Groups[g]) : \A b \in CallBad(Groups[g][k]) : PrintT(<<"FAIL", g, k, <<b>>>>)
   /\ PrintT(<<"DONE", g>>)
=============================================================================
