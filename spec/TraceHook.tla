------------------------------ MODULE TraceHook -----------------------------
(***************************************************************************)
(* C07 on subclasses of Converter that override the documented hook        *)
(* standardize_identifier (rewrite or reject identifiers), validated       *)
(* against Hooked.tla.  Each call is one row                               *)
(*    {ci, x, delim, a: method key -> outcome, h: observed graph of the    *)
(*     hook},                                                              *)
(* where `h` lists what the subclass's method answered when the recorder   *)
(* asked it DIRECTLY for every canonical prefix of the converter and every *)
(* suffix of x after an occurrence of the delimiter (the specification     *)
(* decides which entry matters).  Three kinds of clause:                   *)
(*  ans.hook.<key>  conformance: the logged answer is Hooked!AnsH on the   *)
(*                  converter built from the logged records and `h`;       *)
(*  mon.C07.hook.declarative  the declarative statement Hooked!P_C07H      *)
(*                  with the LOGGED answers as oracle;                     *)
(*  mon.C08.hook    Props!P_C08 (the strict x passthrough matrix differs   *)
(*                  only in failure reporting) with logged answers;        *)
(*  mon.C07.hook.<law>  the answer-to-answer laws on raw logged values     *)
(*  mon.C07.warnings_as_errors  a derived operation answers the same with  *)
(*                  warnings turned into errors (python -W error)          *)
(*                  (they need neither the records nor the graph).         *)
(***************************************************************************)
EXTENDS Naturals, Sequences, FiniteSets, TLC, Json, IOUtils
D == JsonDeserialize(IOEnv.TRACE_FILE)
S(i) == D.strs[i]
FoldTab == D.fold
TFold(ch) == IF \E i \in 1..Len(FoldTab) : FoldTab[i][1] = ch
             THEN FoldTab[CHOOSE i \in 1..Len(FoldTab) : FoldTab[i][1] = ch][2]
             ELSE <<ch>>
INSTANCE Hooked WITH FoldMap <- TFold

SSet(js) == {S(js[k]) : k \in 1..Len(js)}
JRec(j) == Rec(S(j.p), S(j.u), SSet(j.ps), SSet(j.us), IF Len(j.pat) = 0 THEN <<>> ELSE <<S(j.pat[1])>>)
JRecs(js) == [k \in 1..Len(js) |-> JRec(js[k])]
ConvOf(ci) == Fresh(JRecs(D.convs[ci].recs), S(D.convs[ci].delim))
JHook(js) == {<<<<S(js[k][1]), S(js[k][2])>>, IF js[k][3][1] = "val" THEN Val(S(js[k][3][2])) ELSE None1>> : k \in 1..Len(js)}

Kind(m) == CASE m \in {"parse_uri", "parse_curie", "parse"} -> "pair"
             [] m \in {"is_uri", "is_curie"} -> "bool"
             [] m \in {"expand_all", "expand_pair_all"} -> "list"
             [] OTHER -> "str"
DecVal(m, v) == CASE Kind(m) = "pair" -> <<S(v[1]), S(v[2])>>
                  [] Kind(m) = "bool" -> v
                  [] Kind(m) = "list" -> <<S(v[1]), {S(v[k]) : k \in 2..Len(v)}>>
                  [] OTHER -> S(v)
Dec(m, o) == CASE o[1] = "val" -> Val(DecVal(m, o[2]))
               [] o[1] = "raise" -> Raise(o[2])
               [] OTHER -> <<o[1]>>
KeyOf(m, md) == IF md.s /\ md.p THEN m \o "@sp" ELSE IF md.s THEN m \o "@s" ELSE IF md.p THEN m \o "@p"
                ELSE IF ~md.rn THEN m \o "@l" ELSE m
Methods == {"parse_uri", "compress", "is_uri", "parse_curie", "expand", "expand_all", "is_curie", "standardize_prefix", "standardize_curie",
            "standardize_uri", "parse", "compress_or_standardize", "expand_or_standardize", "compress_strict", "expand_strict"}
Questions == Methods \X {Default, Strict, Pass, Both, Mode(FALSE, FALSE, FALSE)}

\* conformance with the operational specification of the hooked converter
ConfBad(call, c, h) ==
  {"ans.hook." \o KeyOf(q[1], q[2]) : q \in {q \in Questions :
       /\ KeyOf(q[1], q[2]) \in DOMAIN call.a
       /\ Dec(q[1], call.a[KeyOf(q[1], q[2])]) # AnsH(c, h, q[1], q[2], S(call.x))}}
\* the declarative statement, logged answers as oracle
MonBad(call, c, h) ==
  LET A(m, md, x) == IF KeyOf(m, md) \in DOMAIN call.a THEN Dec(m, call.a[KeyOf(m, md)]) ELSE <<"missing">> IN
  IF P_C07H(c, h, S(call.x), A) THEN {} ELSE {"mon.C07.hook.declarative"}
\* C08 on hooked converters: the modes differ only in how failure is reported (Props!P_C08, logged answers as oracle)
Mon8Bad(call, c) ==
  LET A(m, md, x) == IF KeyOf(m, md) \in DOMAIN call.a THEN Dec(m, call.a[KeyOf(m, md)]) ELSE <<"missing">> IN
  IF P_C08(c, S(call.x), A) THEN {} ELSE {"mon.C08.hook"}
\* answer-to-answer laws on raw logged values
LawBad(call) ==
  LET a == call.a  d == S(call.delim) IN
  (IF a["is_uri"][1] # "val" \/ a["is_curie"][1] # "val" THEN {"mon.C07.hook.predicates_raise"} ELSE
   LET isuri == a["is_uri"][2]  iscurie == a["is_curie"][2] IN
   (IF isuri # IsVal(a["compress"]) \/ isuri # IsVal(a["parse_uri"]) THEN {"mon.C07.hook.is_uri"} ELSE {}) \cup
   (IF iscurie # IsVal(a["expand"]) THEN {"mon.C07.hook.is_curie"} ELSE {}) \cup
   (IF a["parse"] # (IF isuri THEN a["parse_uri"] ELSE IF iscurie THEN a["parse_curie"] ELSE <<"none">>) THEN {"mon.C07.hook.parse"} ELSE {}) \cup
   (IF IsVal(a["parse"])
    THEN (IF ~IsVal(a["compress_or_standardize"]) \/ S(a["compress_or_standardize"][2]) # S(a["parse"][2][1]) \o d \o S(a["parse"][2][2])
          THEN {"mon.C07.hook.compress_or_standardize"} ELSE {})
    ELSE (IF a["compress_or_standardize"] # <<"none">> THEN {"mon.C07.hook.compress_or_standardize"} ELSE {}))) \cup
  {"mon.C07.warnings_as_errors" : m \in {m \in {"is_uri", "is_curie", "parse", "compress_or_standardize", "expand_or_standardize"} :
                                           (m \o "#w") \in DOMAIN a /\ a[m \o "#w"] # a[m]}} \cup
  (IF a["compress_strict"] # a["compress@s"] THEN {"mon.C07.hook.compress_strict"} ELSE {}) \cup
  (IF a["expand_strict"] # a["expand@s"] THEN {"mon.C07.hook.expand_strict"} ELSE {})
\* pair rows {ci, p, id, a}: expand_pair / expand_reference / expand_pair_all / format_curie never consult the hook -- they are
\* Conv's operators on the converter built from the logged records, and C08's pair clause holds on the logged answers
PairMethods == {"expand_pair", "expand_reference", "expand_pair_all", "format_curie"}
PairBad(call, c) ==
  LET AP(m, md, p, id) == IF KeyOf(m, md) \in DOMAIN call.a THEN Dec(m, call.a[KeyOf(m, md)]) ELSE <<"missing">> IN
  {"ans.hook.pair." \o KeyOf(q[1], q[2]) : q \in {q \in PairMethods \X {Default, Strict, Pass, Both} :
       /\ KeyOf(q[1], q[2]) \in DOMAIN call.a
       /\ Dec(q[1], call.a[KeyOf(q[1], q[2])]) # AnsPair(c, q[1], q[2], S(call.p), S(call.id))}} \cup
  (IF P_C08pair(c, S(call.p), S(call.id), AP) THEN {} ELSE {"mon.C08.hook.pair"})
CallBad(call) ==
  LET c == ConvOf(call.ci)  h == JHook(call.h) IN
  IF "p" \in DOMAIN call THEN PairBad(call, c)
  ELSE LawBad(call) \cup ConfBad(call, c, h) \cup MonBad(call, c, h) \cup Mon8Bad(call, c)
Groups == D.groups
VARIABLES g, step
fvars == <<g, step>>
FInit == g \in 1..Len(Groups) /\ step = 0
FNext == step = 0 /\ step' = 1 /\ UNCHANGED g
FSpec == FInit /\ [][FNext]_fvars
Report == step = 1 =>
   /\ \A k \in 1..Len(Groups[g]) : \A b \in CallBad(Groups[g][k]) : PrintT(<<"FAIL", g, k, <<b>>>>)
   /\ PrintT(<<"DONE", g>>)
=============================================================================
