SPECIFICATION MCSpec
CONSTANTS
  FoldMap <- Fold
  DefaultDelim <- MCDefaultDelim
  MaxRecs = 2
  ProbeLen = 3
  Tier = "quick"
INVARIANT Inv_C01
INVARIANT Inv_C02
INVARIANT Inv_C03
INVARIANT Inv_C06
INVARIANT Inv_C07
INVARIANT Inv_C08
INVARIANT Inv_C08pair
INVARIANT Inv_Struct
CHECK_DEADLOCK FALSE
