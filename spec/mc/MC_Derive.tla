----------------------------- MODULE MC_Derive -----------------------------
(***************************************************************************)
(* Bounded model for C09, C10, C12: two or three base converters, one      *)
(* derivation (chain in both case modes, get_subconverter over every       *)
(* prefix subset, remap_uri_prefixes / rewire over every injective map),   *)
(* then up to MaxFollow add_record calls on the derived converter.         *)
(* Alphabet: 1 'a', 2 'A' (folds to 'a'), 3 'b', 8 'c', 9 'd'.             *)
(***************************************************************************)
EXTENDS World
CONSTANTS MaxBase, MaxFollow, Tier, Ops, MaxPairs, BaseMode

Fold(ch) == IF ch = 2 THEN <<1>> ELSE <<ch>>
MCDefaultDelim == <<58>>
D == <<58>>
PNames == IF Tier = "quick" THEN {<<>>, <<1>>, <<2>>, <<3>>} ELSE {<<>>, <<1>>, <<2>>, <<3>>, <<8>>}
UNames == IF Tier = "quick" THEN {<<>>, <<1>>, <<2>>, <<3>>} ELSE {<<>>, <<1>>, <<2>>, <<3>>, <<8>>}
Opt(S) == {{}} \cup {{x} : x \in S}
ValidPool == {r \in {Rec(p, u, ps, us, NoPat) : p \in PNames, u \in UNames, ps \in Opt(PNames), us \in Opt(UNames)} : ValidRec(r)}
SimplePool == {r \in ValidPool : r.ps = {} \/ r.us = {}}
\* base converters: one record, or two synonym-free records (kept small: they multiply)
PlainPool == {r \in ValidPool : r.ps = {} /\ r.us = {}}
\* quick: single records that are plain or carry the case-variant / sibling synonym of their own name
TinyPool == PlainPool \cup {r \in SimplePool : (r.ps = {<<2>>} /\ r.p = <<1>>) \/ (r.us = {<<2>>} /\ r.u = <<1>>) \/ (r.ps = {<<3>>} /\ r.p = <<1>> /\ r.u = <<1>>)
                                                  \/ (r.p = <<>> /\ r.ps = {<<3>>} /\ r.u \in {<<1>>, <<3>>})
                                                  \/ (r.p = <<3>> /\ r.ps = {<<2>>} /\ r.u = <<3>>)
                                                  \/ (r.u = <<3>> /\ r.us = {<<2>>} /\ r.p = <<3>>)}
Base1 == {<<r>> : r \in (IF Tier = "quick" THEN TinyPool ELSE ValidPool)}
Base2 == {<<r1, r2>> : <<r1, r2>> \in {t \in PlainPool \X PlainPool :
              LexLT(t[1].p, t[2].p) /\ Construct(<<t[1], t[2]>>, D, TRUE).out = Ok}}
NBase == Cardinality({j \in 1..Len(hist) : hist[j].k = "new"})
\* "bridge": a two-record converter first, then single records -- a later record may bridge the two earlier ones
Bases == IF BaseMode = "singles" THEN Base1
         ELSE IF BaseMode = "bridge" THEN (IF NBase = 0 THEN Base2 ELSE Base1)
         ELSE Base1 \cup Base2
FollowPool == IF Tier = "quick" THEN {r \in PlainPool : r.p = <<1>>} ELSE SimplePool

\* remappings over the names plus one unknown string
MapDom == UNames \cup {<<9>>}
RECURSIVE InjSeqs(_, _, _)
InjSeqs(K, V, n) == IF n = 0 THEN {<<>>}
                    ELSE LET S == InjSeqs(K, V, n - 1) IN
                         S \cup {Append(s, <<k, v>>) : s \in {s \in S : Len(s) = n - 1}, k \in K, v \in V}
Sorted(s) == \A i \in 1..(Len(s) - 1) : LexLT(s[i][1], s[i + 1][1])
Maps(K, V) == {s \in InjSeqs(K, V, MaxPairs) : Sorted(s) /\ Injective(s)}
AllSubsets == SUBSET (PNames \cup {<<9>>})
Subsets == IF Tier = "quick" THEN {S \in AllSubsets : Cardinality(S) <= 1 \/ S = PNames \cup {<<9>>} \/ S = {<<1>>, <<9>>}} ELSE AllSubsets

Derived == Len(hist) > 0 /\ \E j \in 1..Len(hist) : hist[j].k \notin {"new", "add"}
MCNext ==
  \/ /\ ~Derived /\ NBase < MaxBase /\ Len(convs) = NBase
     /\ \E rs \in Bases : ANew(rs, D)
  \/ /\ ~Derived /\ Len(convs) >= 1 /\ Len(convs) = NBase
     /\ \/ "chain" \in Ops /\ \E cs \in BOOLEAN :
             \/ AChain([k \in 1..Len(convs) |-> k], cs)
             \/ Len(convs) >= 2 /\ AChain(<<2, 1>>, cs)
        \/ "sub" \in Ops /\ \E P \in Subsets : ASub(Len(convs), P)
        \/ "remap_uri" \in Ops /\ \E m \in Maps(MapDom, MapDom) : ARemap("remap_uri", Len(convs), m)
        \/ "rewire" \in Ops /\ \E m \in Maps(PNames \cup {<<9>>}, MapDom) : ARemap("rewire", Len(convs), m)
  \/ /\ Derived /\ last = Ok /\ Cardinality({j \in 1..Len(hist) : hist[j].k = "add"}) < MaxFollow
     /\ \E r \in FollowPool, mg \in (IF Tier = "quick" THEN {TRUE} ELSE BOOLEAN) : AAdd(Len(convs), r, TRUE, mg, "record")
MCSpec == Init /\ [][MCNext]_vars
\* everything the enabling conditions read from the history is part of the view
MCView == <<convs, last, IF Len(hist) = 0 THEN <<>> ELSE hist[Len(hist)],
            Cardinality({j \in 1..Len(hist) : hist[j].k = "new"}), Cardinality({j \in 1..Len(hist) : hist[j].k = "add"}),
            \E j \in 1..Len(hist) : hist[j].k \notin {"new", "add"}>>

LastOp == hist[Len(hist)]
Res == [out |-> last, conv |-> IF last = Ok THEN convs[Len(convs)] ELSE EmptyConv(D)]
Inv_C09 == Len(hist) > 0 =>
   CASE LastOp.k = "chain" -> P_C09_chain([k \in 1..Len(LastOp.is) |-> convs[LastOp.is[k]]], LastOp.cs, Res)
     [] LastOp.k = "sub" -> P_C09_sub(convs[LastOp.i], LastOp.P, Res)
     [] OTHER -> TRUE
Inv_C12 == Len(hist) > 0 =>
   CASE LastOp.k = "remap_uri" -> P_C12_uri(convs[LastOp.i], LastOp.m, Res)
     [] LastOp.k = "rewire" -> P_C12_rewire(convs[LastOp.i], LastOp.m, Res)
     [] OTHER -> TRUE
\* REFINEMENT BRIDGE to the proved relation (RepointRel.tla, tlaps/C12_Repoint.tla): on a strict input and a mapping that is
\* not ambiguous for it, Derive!RemapURI / Derive!Rewire give exactly the per-record update about which TLAPS proves C12
\* without any bound
RR == INSTANCE RepointRel
P4(r) == [p |-> r.p, u |-> r.u, ps |-> r.ps, us |-> r.us]
MSet(m) == {<<m[k][1], m[k][2]>> : k \in 1..Len(m)}
Prop_BridgeRepoint ==
  [][ (Len(hist') > Len(hist) /\ hist'[Len(hist')].k \in {"remap_uri", "rewire"} /\ last' = Ok) =>
        LET op == hist'[Len(hist')]  c == convs[op.i]  d == convs'[Len(convs')]  isuri == op.k = "remap_uri" IN
        (OneOwner(c) /\ ~Ambiguous(c, op.m, isuri)) =>
           {P4(r) : r \in RecSet(d)} = {RR!UpdR(KnownU(c), MSet(op.m), isuri, P4(r)) : r \in RecSet(c)} ]_vars
Inv_Struct == \A c \in Live : P_C05_inv(c)
\* P_C10 is the action property of World.tla
=============================================================================
