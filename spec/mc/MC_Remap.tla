------------------------------ MODULE MC_Remap -----------------------------
(***************************************************************************)
(* Bounded model for C11 (and C10): every strict converter of <= MaxRecs   *)
(* records over a pool of NNames names with <= 1 synonym, and EVERY        *)
(* partial map names -> names as the remapping (chains, swaps, cycles,     *)
(* partially applicable chains, onto synonyms, onto unknown names).        *)
(***************************************************************************)
EXTENDS World
CONSTANTS MaxRecs, NNames

Fold(ch) == <<ch>>
MCDefaultDelim == <<58>>
D == <<58>>
Names == {<<n>> : n \in 1..(NNames - 1)} \cup {<<>>}      \* the empty prefix is a name like any other
NoneV == <<0>>
Opt(S) == {{}} \cup {{x} : x \in S}
\* URI side is irrelevant to the remapping: the URI prefix is derived from the canonical name
RecOf(p, ps) == Rec(p, <<100>> \o p, ps, {}, NoPat)
Pool == {RecOf(p, ps) : <<p, ps>> \in {t \in Names \X Opt(Names) : t[1] \notin t[2]}}
PartialMaps == [Names -> Names \cup {NoneV}]
ToPairs(f) == SortPairs({<<n, f[n]>> : n \in {n \in Names : f[n] # NoneV}})

LastIsNew == hist[Len(hist)].k = "new"
MCNext ==
  \/ /\ Len(hist) = 0 /\ \E r \in Pool : ANew(<<r>>, D)
  \/ /\ Len(hist) >= 1 /\ LastIsNew /\ Len(hist[Len(hist)].recs) < MaxRecs /\ last = Ok
     /\ \E r \in Pool : LexLT(hist[Len(hist)].recs[Len(hist[Len(hist)].recs)].p, r.p)
                        /\ ANew(Append(hist[Len(hist)].recs, r), D)
  \/ /\ Len(hist) >= 1 /\ LastIsNew /\ last = Ok
     /\ \E f \in PartialMaps : ARemap("remap_curie", Len(convs), ToPairs(f))
MCSpec == Init /\ [][MCNext]_vars

LastOp == hist[Len(hist)]
Inv_C11 == (Len(hist) > 0 /\ LastOp.k = "remap_curie") =>
   P_C11(convs[LastOp.i], LastOp.m, [out |-> last, conv |-> IF last = Ok THEN convs[Len(convs)] ELSE EmptyConv(D)])
Inv_Struct == \A c \in Live : P_C05_inv(c)
=============================================================================
