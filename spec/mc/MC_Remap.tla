------------------------------ MODULE MC_Remap -----------------------------
(***************************************************************************)
(* Bounded model for C11 (and C10): every strict converter of <= MaxRecs   *)
(* records over a pool of NNames names with <= 1 synonym, and EVERY        *)
(* partial map names -> names as the remapping (chains, swaps, cycles,     *)
(* partially applicable chains, onto synonyms, onto unknown names).        *)
(* Shape = "three" (wave 11, C11-w11-M2): two fixed THREE-record           *)
(* converters -- a (synonym a1), b, z  and  a (synonym a1), b (synonym     *)
(* b1), z -- with every partial map of <= MaxPairs pairs over six names:   *)
(* a skipped pair (its target belongs to another record) next to an        *)
(* applicable pair that wants the skipped pair's source needs three        *)
(* records.                                                                *)
(***************************************************************************)
EXTENDS World
CONSTANTS MaxRecs, NNames, Shape, MaxPairs

Fold(ch) == <<ch>>
MCDefaultDelim == <<58>>
D == <<58>>
Names == {<<n>> : n \in 1..(NNames - 1)} \cup {<<>>}      \* the empty prefix is a name like any other
NoneV == <<0>>
Opt(S) == {{}} \cup {{x} : x \in S}
\* URI side is irrelevant to the remapping: the URI prefix is derived from the canonical name
RecOf(p, ps) == Rec(p, <<100>> \o p, ps, {}, NoPat)
Pool == {RecOf(p, ps) : <<p, ps>> \in {t \in Names \X Opt(Names) : t[1] \notin t[2]}}
PartialMaps == [Names -> Names \cup {NoneV}]
ToPairs(f) == SortPairs({<<n, f[n]>> : n \in {n \in Names : f[n] # NoneV}})

SmallMaps == {f \in PartialMaps : Cardinality({n \in Names : f[n] # NoneV}) <= MaxPairs}
ThreeBases == {<<RecOf(<<1>>, {<<2>>}), RecOf(<<3>>, {}), RecOf(<<4>>, {})>>,
               <<RecOf(<<1>>, {<<2>>}), RecOf(<<3>>, {<<5>>}), RecOf(<<4>>, {})>>}
LastIsNew == hist[Len(hist)].k = "new"
MCNextThree ==
  \/ /\ Len(hist) = 0 /\ \E b \in ThreeBases : ANew(b, D)
  \/ /\ Len(hist) = 1 /\ last = Ok
     /\ \E f \in SmallMaps : ARemap("remap_curie", Len(convs), ToPairs(f))
MCNextAll ==
  \/ /\ Len(hist) = 0 /\ \E r \in Pool : ANew(<<r>>, D)
  \/ /\ Len(hist) >= 1 /\ LastIsNew /\ Len(hist[Len(hist)].recs) < MaxRecs /\ last = Ok
     /\ \E r \in Pool : LexLT(hist[Len(hist)].recs[Len(hist[Len(hist)].recs)].p, r.p)
                        /\ ANew(Append(hist[Len(hist)].recs, r), D)
  \/ /\ Len(hist) >= 1 /\ LastIsNew /\ last = Ok
     /\ \E f \in PartialMaps : ARemap("remap_curie", Len(convs), ToPairs(f))
MCNext == IF Shape = "three" THEN MCNextThree ELSE MCNextAll
MCSpec == Init /\ [][MCNext]_vars

LastOp == hist[Len(hist)]
Inv_C11 == (Len(hist) > 0 /\ LastOp.k = "remap_curie") =>
   P_C11(convs[LastOp.i], LastOp.m, [out |-> last, conv |-> IF last = Ok THEN convs[Len(convs)] ELSE EmptyConv(D)])
Inv_Struct == \A c \in Live : P_C05_inv(c)
=============================================================================
