------------------------------ MODULE MC_System ------------------------------
(***************************************************************************)
(* Bounded model of System.tla: the converter world with its files.        *)
(* Exhaustive for small bounds (Mode = "bfs"), and the model behind        *)
(* `tlc -simulate` (long random behaviours, replayed on the implementation)*)
(* Alphabet: 1 'a', 2 'A' (folds to 'a'), 3 'b', 6 sharp s (folds to       *)
(* <<7,7>>), 7 's', 9 'd'.                                                 *)
(***************************************************************************)
EXTENDS System
CONSTANTS MaxConvs, MaxSteps, MaxFiles, MaxAdds, Size     \* Size: "tiny" | "narrow" | "wide" | "twin"
Twin == Size = "twin"     \* two converters over ONE prefix and URI prefix that differ in synonyms / pattern, written one after the other, both read
Wide == Size = "wide"
Fold(ch) == IF ch = 2 THEN <<1>> ELSE IF ch = 6 THEN <<7, 7>> ELSE <<ch>>
MCDefaultDelim == <<58>>
D == <<58>>
PNames == IF Wide THEN {<<>>, <<1>>, <<2>>, <<6>>, <<7, 7>>} ELSE IF Size = "tiny" THEN {<<1>>, <<2>>} ELSE IF Twin THEN {<<1>>} ELSE {<<1>>, <<2>>, <<3>>}
UNames == IF Wide THEN {<<1>>, <<2>>, <<1, 3>>, <<3>>} ELSE IF Size = "tiny" THEN {<<1>>, <<1, 3>>} ELSE IF Twin THEN {<<1>>} ELSE {<<1>>, <<1, 3>>, <<3>>}
Pats == {NoPat, <<<<9, 1>>>>}
Opt(S) == {{}} \cup {{x} : x \in S}
\* at most one synonym per record, a pattern only on synonym-free records
ValidPool == IF Twin THEN {r \in {Rec(<<1>>, <<1>>, ps, us, pat) : ps \in Opt({<<2>>}), us \in Opt({<<1, 3>>}), pat \in Pats \cup {<<<<9>>>>}} : ValidRec(r)}
             ELSE {r \in {Rec(p, u, ps, us, pat) : p \in PNames, u \in UNames, ps \in Opt(PNames), us \in Opt(UNames), pat \in Pats} :
                 ValidRec(r) /\ (r.ps = {} \/ r.us = {}) /\ (HasPat(r) => (r.us = {} /\ (Wide => r.ps = {})))}
\* the exhaustive instances start from synonym-bearing, pattern-bearing records and add URI-synonym-bearing ones
StartPool == IF Wide \/ Twin THEN ValidPool ELSE {r \in ValidPool : r.us = {}}
AddPool == IF Wide THEN ValidPool ELSE {r \in ValidPool : ~HasPat(r)}
NAdds == Cardinality({k \in 1..Len(hist) : hist[k].k = "add"})
PK == PNames \cup {<<9>>}
UK == UNames \cup {<<9>>}
Single(K, V) == {<<<<k, v>>>> : k \in K, v \in V}
Subsets == {S \in SUBSET PK : Cardinality(S) = 1}
Formats == {<<"epm", FALSE, FALSE>>, <<"jsonld", FALSE, FALSE>>, <<"jsonld", TRUE, FALSE>>, <<"jsonld", FALSE, TRUE>>, <<"jsonld", TRUE, TRUE>>,
            <<"shacl", FALSE, FALSE>>, <<"shacl", TRUE, FALSE>>, <<"tsv", FALSE, FALSE>>}
\* converters read back non-strictly (synonym output) need not be consistent: they are observed, not operated on
Usable(i) == P_C05_inv(convs[i])
\* the simulator picks uniformly among ALL successors, and constructor / add arguments are far more numerous than
\* files: in the wide (simulation) instance every fourth step is a write and every fourth a read
Phase == IF ~Wide \/ convs = <<>> THEN "any"
         ELSE IF Len(hist) % 4 = 1 /\ Len(files) < MaxFiles THEN "write"
         ELSE IF Len(hist) % 4 = 3 /\ files # <<>> /\ Len(convs) < MaxConvs THEN "read"
         ELSE "world"
MCNext ==
  /\ Len(hist) < MaxSteps
  /\ \/ /\ Phase \in {"any", "world"}
        /\ Len(convs) < (IF Wide \/ Twin THEN 2 ELSE MaxConvs)
        /\ \E r1 \in StartPool : Lift(ANew(<<r1>>, D))
     \/ /\ Len(convs) >= 1
        /\ \E i \in 1..Len(convs) :
             \/ Phase \in {"any", "world"} /\ ~Twin /\
                (\/ Usable(i) /\ NAdds < MaxAdds /\ \E r \in AddPool, cs \in BOOLEAN, mg \in BOOLEAN : Lift(AAdd(i, r, cs, mg, "record"))
                 \/ Usable(i) /\ Len(convs) < MaxConvs /\ \E P \in Subsets : Lift(ASub(i, P))
                 \/ Usable(i) /\ Len(convs) < MaxConvs /\ \E m \in Single(PK, PK) : Lift(ARemap("remap_curie", i, m))
                 \/ Usable(i) /\ Len(convs) < MaxConvs /\ Wide /\ \E m \in Single(UK, UK) : Lift(ARemap("remap_uri", i, m))
                 \/ Usable(i) /\ Len(convs) < MaxConvs /\ Wide /\ \E m \in Single(PK, UK) : Lift(ARemap("rewire", i, m))
                 \/ Usable(i) /\ Len(convs) < MaxConvs /\ \E j \in 1..Len(convs), cs \in BOOLEAN :
                       Usable(j) /\ Lift(AChain(IF i = j THEN <<i>> ELSE <<i, j>>, cs)))
             \/ Phase \in {"any", "write"} /\ Len(files) < MaxFiles /\ OneOwner(convs[i]) /\ \E f \in Formats :
                   (f[1] = "shacl" => Len(convs[i].recs) > 0) /\
                   (Twin => (Len(convs) = 2 /\ (IF files = <<>> THEN TRUE ELSE files[1].fmt = f[1] /\ files[1].syn = f[2] /\ files[1].expand = f[3] /\ files[1].srci # i))) /\
                   SWrite(i, f[1], f[2], f[3])    \* SHACL of an empty converter: outside C14
     \/ /\ Phase \in {"any", "read"}
        /\ Len(convs) < MaxConvs
        /\ \E j \in 1..Len(files) : SRead(j)
MCSpec == SInit /\ [][MCNext]_svars
Inv_Struct == \A i \in 1..Len(convs) : Usable(i) \/ hist # <<>>
\* converters that were READ STRICTLY from a file of a strict converter are consistent
Inv_StrictReads == \A c \in Live : OneOwner(c) => P_C05_inv(c)
View == <<convs, files, Len(hist), NAdds, IF sigs = <<>> THEN <<>> ELSE sigs[Len(sigs)]>>
=============================================================================
