------------------------------- MODULE MC_Web -------------------------------
(***************************************************************************)
(* Bounded model for C17 and C18.                                          *)
(*  resolve: converter in {colon-delimited, slash-delimited} x every       *)
(*           request path of <= MaxPath characters over {x, y, ':', '/'},  *)
(*           built one character per step; both frameworks.                *)
(*  neg:     every Accept header of <= MaxParts parts over supported,      *)
(*           synonym and unsupported types x three q-values.               *)
(*  map:     every URI <= MaxURI characters against converters whose URI   *)
(*           prefixes contain an IRI-invalid character.                    *)
(* Characters: 1 'x', 2 'y', 3 ' ' (IRI-invalid), 47 '/', 58 ':'.          *)
(***************************************************************************)
EXTENDS Web
CONSTANTS MaxPath, MaxParts, MaxURI
VARIABLE st
Fold(ch) == <<ch>>
MCDefaultDelim == <<58>>
MCInvalid == {3}
\* media types as small integers: 1..3 canonical (json, xml, csv), 4..6 synonyms of 1..3, 7 text/html, 8 */*
MCSupported == {1, 2, 3}
MCSyn(t) == IF t \in 4..6 THEN t - 3 ELSE t
MCDefaultType == 2

R1 == Rec(<<1>>, <<1, 47>>, {<<2>>}, {<<2, 47>>}, NoPat)         \* prefix x (synonym y): x/  (synonym y/)
R2 == Rec(<<1, 1>>, <<1, 58>>, {}, {<<1, 3>>}, NoPat)            \* prefix xx: "x:" and a synonym with a space
R3 == Rec(<<2, 2>>, <<1, 47, 2>>, {}, {}, NoPat)                 \* prefix yy: "x/y", NESTED under R1's canonical URI prefix
Conv(d) == Construct(<<R1, R2>>, d, TRUE).conv
MapConv == Construct(<<R1, R2, R3>>, <<58>>, TRUE).conv
Convs == {Conv(<<58>>), Conv(<<47>>)}
PathChars == {1, 2, 47, 58}
Types == 1..8
Qs == {300, 800, 1000}

Init == st \in [kind : {"resolve"}, c : Convs, path : {<<47>>}]
           \cup [kind : {"neg"}, h : {<<>>}]
           \cup [kind : {"map"}, c : {MapConv}, u : {<<>>}]
Next == \/ st.kind = "resolve" /\ Len(st.path) < MaxPath /\ \E ch \in PathChars : st' = [st EXCEPT !.path = Append(@, ch)]
        \/ st.kind = "neg" /\ Len(st.h) < MaxParts /\ \E t \in Types, q \in Qs : st' = [st EXCEPT !.h = Append(@, <<t, q>>)]
        \/ st.kind = "map" /\ Len(st.u) < MaxURI /\ \E ch \in {1, 2, 3, 47, 58} : st' = [st EXCEPT !.u = Append(@, ch)]
Spec == Init /\ [][Next]_st

Inv_C17 == st.kind = "resolve" =>
   LET rest == Tail(st.path)  c == st.c
       ans(fw) == Resolve(c, fw, st.path) IN
   Contains(rest, c.delim) => P_C17(c, PartBefore(rest, c.delim), PartAfter(rest, c.delim), ans)
Inv_C18neg == st.kind = "neg" => P_C18_neg(st.h, Negotiate(st.h))
Inv_C18map == st.kind = "map" => /\ P_C18_answer(st.c, st.u, TRUE, MappingAnswer(st.c, st.u, TRUE))
                                 /\ P_C18_answer(st.c, st.u, FALSE, MappingAnswer(st.c, st.u, FALSE))
=============================================================================
