------------------------------ MODULE MC_Incr ------------------------------
(***************************************************************************)
(* Bounded model for C05 (and the insertion-order clause of C01): start    *)
(* from the empty converter or any one-record converter, then up to MaxOps *)
(* add_record calls with all four case_sensitive x merge combinations,     *)
(* over pools with overlap on the CURIE side, the URI side, both, and      *)
(* overlap up to letter case only.                                         *)
(* Alphabet: 1 = 'a', 2 = 'A' (folds to 'a'), 3 = 'b', 4 = delimiter,      *)
(*           6 = sharp s (folds to <<7, 7>>), 7 = 's'.                     *)
(***************************************************************************)
EXTENDS World
CONSTANTS MaxOps, Tier, Wide

Fold(ch) == IF ch = 2 THEN <<1>> ELSE IF ch = 6 THEN <<7, 7>> ELSE <<ch>>
MCDefaultDelim == <<4>>
Delims == {<<4>>}
PPool == IF Tier = "quick" THEN {<<1>>, <<2>>, <<6>>, <<7, 7>>} ELSE {<<>>, <<1>>, <<2>>, <<6>>, <<7, 7>>}
UPool == IF Tier = "quick" THEN {<<1>>, <<2>>, <<1, 3>>, <<3>>} ELSE {<<>>, <<1>>, <<2>>, <<1, 3>>}
Opt(S) == {{}} \cup {{x} : x \in S}
ValidPool == {r \in {Rec(p, u, ps, us, NoPat) : p \in PPool, u \in UPool, ps \in Opt(PPool), us \in Opt(UPool)} : ValidRec(r)}
\* arguments of add_record: no synonyms in the thorough tier to keep the branching finite
\* Wide = TRUE: every record with at most one synonym per side as argument AND as starting converter (used with MaxOps = 1:
\* wide and shallow); Wide = FALSE: the narrow pools below (deep)
OneSyn == {r \in ValidPool : r.ps = {} \/ r.us = {}}
\* the deep instance does without the fourth URI string and without the length-changing fold pair
NoB(r) == r.u # <<3>> /\ <<3>> \notin r.us /\ r.p \in {<<1>>, <<2>>} /\ r.ps \subseteq {<<1>>, <<2>>}
ArgPool == IF Wide THEN OneSyn ELSE IF Tier = "quick"
           THEN {r \in ValidPool : r.ps = {} /\ r.us = {} /\ NoB(r)}
                \cup {r \in ValidPool : r.us = {} /\ r.ps = {<<2>>} /\ r.p = <<1>>}
                \cup {r \in ValidPool : r.ps = {} /\ r.us = {<<2>>} /\ r.u = <<1>>}
           ELSE {r \in ValidPool : r.ps = {} /\ r.us = {}}
                \cup {r \in ValidPool : r.us = {} /\ r.ps # {} /\ r.p \in {<<>>, <<1>>}}
                \cup {r \in ValidPool : r.ps = {} /\ r.us # {} /\ r.u = <<1>>}
Probes == StringsUpTo({1, 2, 3, 4}, 2)

MCNext ==
  \/ /\ Len(hist) = 0
     /\ \E d \in Delims : ANew(<<>>, d) \/ \E r \in (IF Wide THEN OneSyn ELSE ArgPool) : ANew(<<r>>, d)
  \/ /\ Len(hist) >= 1 /\ Len(hist) <= MaxOps /\ Len(convs) = 1
     /\ \E r \in ArgPool, cs \in BOOLEAN, mg \in BOOLEAN : AAdd(1, r, cs, mg, "record")
MCSpec == Init /\ [][MCNext]_vars
MCView == <<convs, last, Len(hist), IF sigs = <<>> THEN <<>> ELSE sigs[Len(sigs)]>>     \* only the LAST signature (histories must not multiply states), but the LENGTH of the history: it decides what is enabled

Inv_C05 == \A c \in Live : P_C05_inv(c)
Inv_C01 == \A c \in Live : LET A(m, md, x) == SpecA(c, m, md, x) IN \A s \in Probes : P_C01(c, s, A)
Inv_C02 == \A c \in Live : LET A(m, md, x) == SpecA(c, m, md, x)  AP(m, md, p, id) == SpecAP(c, m, md, p, id)
                          IN \A s \in Probes : P_C02(c, s, A, AP)
Inv_C03 == \A c \in Live : DelimFreePrefixes(c) => LET A(m, md, x) == SpecA(c, m, md, x) IN \A s \in Probes : P_C03(c, s, A)
Inv_C06 == \A c \in Live : LET A(m, md, x) == SpecA(c, m, md, x) IN \A s \in Probes : P_C06(c, s, A)
Inv_C07 == \A c \in Live : LET A(m, md, x) == SpecA(c, m, md, x) IN \A s \in Probes : P_C07(c, s, A)
Inv_C08 == \A c \in Live : LET A(m, md, x) == SpecA(c, m, md, x) IN \A s \in Probes : P_C08(c, s, A)
\* every add step satisfies the declarative step law
Prop_C05 == [][ (Len(hist') > Len(hist) /\ hist'[Len(hist')].k = "add") =>
                 LET op == hist'[Len(hist')] IN
                 P_C05_step(convs[op.i], op.rec, op.cs, op.mg, [out |-> last', conv |-> convs'[op.i]]) ]_vars
\* REFINEMENT BRIDGE to the proved relation (StepRel.tla, tlaps/C05_Step.tla): every add step of the operational
\* specification is a step of the record-set relation about which TLAPS proves, without any bound, that one owner per
\* prefix and the freshness of the prefix map are preserved
SR == INSTANCE StepRel WITH Fold <- CF
P4(r) == [p |-> r.p, u |-> r.u, ps |-> r.ps, us |-> r.us]
Recs4(c) == {P4(r) : r \in RecSet(c)}
Prop_Bridge == [][ (Len(hist') > Len(hist) /\ hist'[Len(hist')].k = "add") =>
                    LET op == hist'[Len(hist')] IN
                    (ValidRec(op.rec) /\ OneOwner(convs[op.i])) =>
                       SR!StepRel(Recs4(convs[op.i]), convs[op.i].pm, P4(op.rec), op.cs, op.mg, Recs4(convs'[op.i]), convs'[op.i].pm) ]_vars
=============================================================================
