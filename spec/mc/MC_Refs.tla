------------------------------ MODULE MC_Refs -------------------------------
(***************************************************************************)
(* Bounded model for C15: a heap of <= MaxRefs references built through    *)
(* every constructor (fields, from_curie with a 1- or 2-character          *)
(* separator, string validation, with / without a context converter) over  *)
(* prefixes {"", a, A}, identifiers {"", 1, ":", "1:2", "a"}, names.       *)
(* Characters: 1 'a', 2 'A', 3 '1', 4 '2', 58 ':', 9 'n', 10 'm'.          *)
(***************************************************************************)
EXTENDS Refs
CONSTANTS MaxRefs
VARIABLES heap, last
rvars == <<heap, last>>
Fold(ch) == IF ch = 2 THEN <<1>> ELSE <<ch>>
Classes == {"tuple", "ref", "namable", "named"}
Prefixes == {<<>>, <<1>>, <<2>>}
Idents == {<<>>, <<3>>, <<58>>, <<3, 58, 4>>, <<1>>}
Names == {<<>>, <<<<9>>>>, <<<<10>>>>}
Seps == {<<58>>, <<58, 58>>}
Ctx == Construct(<<Rec(<<1>>, <<100>>, {<<2>>}, {}, NoPat)>>, <<58>>, TRUE).conv
\* a context whose canonical prefix is the EMPTY string (default namespace) with the synonym 'a'
Ctx2 == Construct(<<Rec(<<>>, <<100>>, {<<1>>}, {}, NoPat)>>, <<58>>, TRUE).conv
Strings == {p \o s \o id : p \in Prefixes, s \in Seps \cup {<<>>}, id \in Idents}

RInit == heap = {} /\ last = <<>>
Put1(o) == /\ last' = o
           /\ heap' = IF IsVal(o) THEN heap \cup {o[2]} ELSE heap
RNext == /\ Cardinality(heap) < MaxRefs
         /\ \/ \E cls \in Classes, p \in Prefixes, id \in Idents, n \in Names, cx \in {<<>>, <<Ctx>>, <<Ctx2>>} : Put1(Build(cls, p, id, n, cx))
            \/ \E cls \in Classes, s \in Strings, sep \in Seps, n \in Names : Put1(FromCurie(cls, s, sep, n, <<>>))
            \/ \E cls \in Classes, s \in Strings : Put1(ValidateStr(cls, s, <<>>))
RSpec == RInit /\ [][RNext]_rvars
Inv_C15 == /\ \A r \in heap : P_C15_roundtrip(r)
           /\ P_C15_order(heap)
Inv_C15split == \A cls \in Classes, s \in Strings, sep \in Seps, n \in Names : P_C15_split(cls, s, sep, n)
Inv_C15ctx == \A cls \in Classes, p \in Prefixes \cup {<<3>>}, id \in Idents, n \in Names :
                 P_C15_ctx(cls, p, id, n, Ctx) /\ P_C15_ctx(cls, p, id, n, Ctx2)
=============================================================================
