----------------------------- MODULE MC_Discover ----------------------------
(***************************************************************************)
(* Bounded model for C19: sequences (order and repetition explicit) of     *)
(* <= MaxURIs URIs of <= MaxLen characters, built one character / one URI  *)
(* per step; every delimiter list, cutoff and a pre-existing converter.    *)
(* Alphabet: 1 'a' (alnum), 2 '1' (alnum), 3 '/', 4 '#', 5 '_', 6 '-',     *)
(* 7 'g' (the GitHub head, alnum), 8 'i' (the word "issues", alnum).       *)
(***************************************************************************)
EXTENDS Discover
CONSTANTS MaxURIs, MaxLen, Chars, Tier
VARIABLES uris, cur, args, res
dvars == <<uris, cur, args, res>>

Fold(ch) == <<ch>>
MCDefaultDelim == <<58>>
MCAlnum == {1, 2, 7, 8}
MCDefaultDelims == <<<<4>>, <<3>>, <<5>>>>
MCGithub == <<7>>
MCIssues == <<8>>
DelimLists == IF Tier = "quick" THEN {<<>>, <<<<5>>, <<3>>>>, <<<<3, 3>>>>}
              ELSE {<<>>, <<<<3>>>>, <<<<5>>, <<3>>>>, <<<<3>>, <<4>>, <<5>>>>, <<<<6>>>>, <<<<3, 3>>>>}
Cutoffs == IF Tier = "quick" THEN {<<>>, <<1>>, <<2>>} ELSE {<<>>, <<0>>, <<1>>, <<2>>}
Metas == IF Tier = "quick" THEN {<<110, 115>>} ELSE {<<110, 115>>, <<110, 49>>}
PreConvs == {<<>>, <<Construct(<<Rec(<<120>>, <<1, 3>>, {}, {}, NoPat)>>, <<58>>, TRUE).conv>>}

DInit == uris = <<>> /\ cur = <<>> /\ args = <<>> /\ res = <<>>
DNext ==
  \/ /\ args = <<>> /\ Len(cur) < MaxLen /\ Len(uris) < MaxURIs
     /\ \E c \in Chars : cur' = Append(cur, c) /\ UNCHANGED <<uris, args, res>>
  \/ /\ args = <<>> /\ cur # <<>> /\ Len(uris) < MaxURIs
     /\ uris' = Append(uris, cur) /\ cur' = <<>> /\ UNCHANGED <<args, res>>
  \/ /\ args = <<>> /\ cur = <<>> /\ uris # <<>>
     /\ \E ds \in DelimLists, co \in Cutoffs, me \in Metas, pc \in PreConvs :
          /\ args' = [ds |-> ds, cutoff |-> co, meta |-> me, conv |-> pc]
          /\ res' = <<Discover(uris, ds, co, me, pc)>>
          /\ UNCHANGED <<uris, cur>>
DSpec == DInit /\ [][DNext]_dvars
Inv_C19 == res # <<>> => P_C19(uris, args.ds, args.cutoff, args.meta, args.conv, res[1])
\* order and repetition are irrelevant: any permutation / duplication gives the same converter
Inv_C19order == res # <<>> =>
   \A i \in 1..Len(uris) :
      LET rot == SubSeq(uris, i, Len(uris)) \o SubSeq(uris, 1, i - 1) \o <<uris[i]>> IN
      RecSet(Discover(rot, args.ds, args.cutoff, args.meta, args.conv).conv) = RecSet(res[1].conv)
=============================================================================
