------------------------------ MODULE MC_Hook ------------------------------
(***************************************************************************)
(* Bounded model for converters with an overridden identifier hook         *)
(* (Hooked.tla): every strict converter of <= MaxRecs records over small   *)
(* pools x every hook graph of a few shapes x every probe string.          *)
(* Alphabet: 1 = 'a', 2 = 'A', 3 = 'b', 4 = delimiter character.           *)
(*                                                                         *)
(* Hook shapes (h is the graph, identity elsewhere):                       *)
(*   one    - a single entry: one <<prefix, identifier>> rejected or       *)
(*            rewritten (to "", to another identifier, to one containing   *)
(*            the delimiter, to a longer one)                              *)
(*   reject - every identifier of one prefix rejected (validation)         *)
(*   const  - every identifier of one prefix rewritten to one value        *)
(*   strip  - a leading 'a' dropped (the "redundant prefix" hook), for     *)
(*            every prefix                                                 *)
(*   empty  - the empty identifier rejected, everything else kept          *)
(***************************************************************************)
EXTENDS Hooked
CONSTANTS MaxRecs, ProbeLen, IdLen

Fold(ch) == IF ch = 2 THEN <<1>> ELSE <<ch>>
Alphabet == {1, 2, 3, 4}
Delims == {<<4>>, <<4, 4>>}
PPool == {<<>>, <<1>>, <<2>>}
UPool == {<<1>>, <<1, 3>>, <<1, 4>>}
Opt(S) == {{}} \cup {{x} : x \in S}
RecPool == {Rec(p, u, ps, us, NoPat) : p \in PPool, u \in UPool, ps \in Opt(PPool), us \in Opt(UPool)}
ValidPool == {r \in RecPool : ValidRec(r)}
RecSeqs == {<<>>} \cup {<<r>> : r \in ValidPool} \cup
           (IF MaxRecs >= 2 THEN {<<x[1], x[2]>> : x \in {y \in ValidPool \X ValidPool : LexLT(y[1].p, y[2].p)}} ELSE {})
Probes == StringsUpTo(Alphabet, ProbeLen)
Ids == StringsUpTo(Alphabet, IdLen)
Targets(id) == {<<>>, <<3>>, <<4, 1>>, id \o <<1>>}

VARIABLES c, h, step
vars == <<c, h, step>>
Canon == {r.p : r \in RecSet(c)}
Shapes ==
  {{<<<<p, id>>, None1>>} : p \in Canon, id \in Ids} \cup
  {{<<<<p, id>>, Val(t)>>} : <<p, id, t>> \in {x \in Canon \X Ids \X UNION {Targets(i) : i \in Ids} : x[3] \in Targets(x[2])}} \cup
  {{<<<<p, id>>, None1>> : id \in Ids} : p \in Canon} \cup
  {{<<<<p, id>>, Val(t)>> : id \in Ids} : p \in Canon, t \in {<<>>, <<3>>}} \cup
  {{<<<<p, id>>, Val(IF id # <<>> /\ id[1] = 1 THEN Tail(id) ELSE id)>> : p \in Canon, id \in Ids}} \cup
  {{<<<<p, <<>>>>, None1>> : p \in Canon}}
MCInit == /\ step = 0 /\ h = NoHook
          /\ \E rs \in RecSeqs, d \in Delims : Construct(rs, d, TRUE).out = Ok /\ c = Construct(rs, d, TRUE).conv
MCNext == step = 0 /\ step' = 1 /\ c' = c /\ h' \in Shapes
MCSpec == MCInit /\ [][MCNext]_vars

\* the declarative statement on the operational hooked operators
Inv_C07H == LET A(m, md, x) == AnsH(c, h, m, md, x) IN \A s \in Probes : P_C07H(c, h, s, A)
\* C08 for hooked converters: the modes of every method differ only in how failure is reported
Inv_C08H == LET A(m, md, x) == AnsH(c, h, m, md, x) IN \A s \in Probes : P_C08(c, s, A)
\* with the base class's hook the hooked operators are Conv's, and P_C07H is P_C07
Inv_Base == step = 0 => /\ \A s \in Probes : SameAsBase(c, s)
                        /\ LET A(m, md, x) == Ans(c, m, md, x) IN \A s \in Probes : P_C07(c, s, A) /\ P_C07H(c, NoHook, s, A)
\* the hook is consulted with the CANONICAL prefix, once the synonym has been resolved: a graph keyed by a synonym changes nothing
Inv_SynonymKey == \A r \in RecSet(c) : \A q \in r.ps : \A s \in Probes :
                     LET hs == {<<<<q, id>>, None1>> : id \in Ids} IN
                     \A m \in {"parse_curie", "expand", "is_curie", "parse"} : AnsH(c, hs, m, Default, s) = Ans(c, m, Default, s)
\* witnesses against vacuity (each must be VIOLATED)
Never_Rejected == ~(step = 1 /\ \E s \in Probes : Ans(c, "is_curie", Default, s) = Val(TRUE) /\ AnsH(c, h, "is_curie", Default, s) = Val(FALSE))
Never_Rewritten == ~(step = 1 /\ \E s \in Probes : IsVal(AnsH(c, h, "expand", Default, s)) /\ AnsH(c, h, "expand", Default, s) # Ans(c, "expand", Default, s))
Never_UriAndCurie == ~(step = 1 /\ \E s \in Probes : Ans(c, "is_uri", Default, s) = Val(TRUE) /\ Ans(c, "is_curie", Default, s) = Val(TRUE)
                                                     /\ AnsH(c, h, "is_curie", Default, s) = Val(FALSE))
=============================================================================
