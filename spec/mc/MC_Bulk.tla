------------------------------ MODULE MC_Bulk -------------------------------
(***************************************************************************)
(* Bounded model for C16: every table of <= MaxRows rows x 2 columns over  *)
(* a cell pool {convertible URI, convertible CURIE, unknown CURIE,         *)
(* delimiter-free text, empty}, with / without header, both columns, every *)
(* strict x passthrough x ambiguous combination, compress and expand; a    *)
(* short row as a malformed cell.  The fault position is whatever row the  *)
(* step machine reaches first.  Characters: 1 'a', 2 'b', 3 'u', 58 ':'.   *)
(***************************************************************************)
EXTENDS Bulk
CONSTANTS MaxRows
Fold(ch) == <<ch>>
\* a -> "ua" (synonyms b, "ub");  u -> "a:"  so that the cell "a:a" is BOTH a URI (of u) and a CURIE (of a)
Conv == Construct(<<Rec(<<1>>, <<3, 1>>, {<<2>>}, {<<3, 2>>}, NoPat), Rec(<<3>>, <<1, 58>>, {}, {}, NoPat)>>, <<58>>, TRUE).conv
Cells == {<<3, 1, 1>>, <<3, 2, 1>>, <<1, 58, 1>>, <<2, 58, 1>>, <<3, 58, 1>>, <<1, 1>>, <<>>}
Rows == {<<x, y>> : x \in Cells, y \in {<<1>>, <<>>}} \cup {<<x>> : x \in {<<3, 1, 1>>, <<1, 58, 1>>}}
MInit == disk = <<>> /\ buf = <<>> /\ pc = "idle" /\ job = <<>>
AddRow == pc = "idle" /\ Len(disk) < MaxRows /\ \E r \in Rows : disk' = Append(disk, r) /\ UNCHANGED <<buf, pc, job>>
Start == \E kind \in {"compress", "expand"}, amb \in BOOLEAN, s \in BOOLEAN, p \in BOOLEAN, h \in BOOLEAN, col \in {1, 2} :
            Begin(Conv, BulkMethod(kind, amb), Mode(s, p, TRUE), h, col)
MNext == AddRow \/ Start \/ StepRow \/ WriteAll
MSpec == MInit /\ [][MNext]_bvars
Inv_Atomic == pc # "idle" => P_C16_atomic
Inv_Done == pc # "idle" => P_C16_done
Inv_FailPos == pc # "idle" => P_C16_failpos
\* every fault position is reachable (checked by the harness as a property expected to be VIOLATED)
Never_Failed_At(k) == ~(pc = "failed" /\ Len(buf) + 1 = k)
Never1 == Never_Failed_At(1)
Never2 == Never_Failed_At(2)
Never3 == Never_Failed_At(3)
=============================================================================
