------------------------------ MODULE MC_Build -----------------------------
(***************************************************************************)
(* Bounded model for C04 and C13: every SEQUENCE (all orders, repetition   *)
(* allowed) of <= MaxRecs records over a pool rich in clashes, through the *)
(* constructor; every small prefix map / priority map / reverse map /      *)
(* JSON-LD context through the loaders.  Alphabet: 1 'a', 3 'b', 8 'c',    *)
(* 64 '@'.                                                                 *)
(***************************************************************************)
EXTENDS Loaders
CONSTANTS MaxRecs, MaxEntries, Tier

VARIABLES hist, last, res,      \* res: the result [out, conv] of the last operation
          sigs                 \* coverage signature of each operation (kinds of clash, sizes)
bvars == <<hist, last, res, sigs>>

Fold(ch) == <<ch>>
MCDefaultDelim == <<58>>
D == <<58>>
Names == IF Tier = "quick" THEN {<<1>>, <<3>>} ELSE {<<1>>, <<3>>, <<8>>}
Opt(S) == {{}} \cup {{x} : x \in S}
Pool == {Rec(p, u, ps, us, NoPat) : p \in Names, u \in Names, ps \in Opt(Names), us \in Opt(Names)}
ValidPool == {r \in Pool : ValidRec(r)}

\* dictionaries as sequences with distinct keys
\* dictionary keys additionally contain a capital letter: case variants of one name (2 = 'A')
LNames == Names \cup {<<2>>}
Keys1 == LNames \cup {<<>>, <<64, 1>>}
RECURSIVE DictSeqs(_, _, _)
DictSeqs(K, V, n) == IF n = 0 THEN {<<>>}
                     ELSE LET S == DictSeqs(K, V, n - 1) IN
                          S \cup {Append(s, <<k, v>>) : s \in {s \in S : Len(s) = n - 1}, k \in K, v \in V}
Distinct(S) == {s \in S : DistinctKeys(s)}
PrefixMaps == Distinct(DictSeqs(LNames, Names, MaxEntries))
UriLists == {<<u>> : u \in Names} \cup {<<u, v>> : u \in Names, v \in Names}
PriorityMaps == Distinct(DictSeqs(LNames, UriLists, IF Tier = "quick" THEN 2 ELSE MaxEntries))
RevNames == Names \cup {<<1, 3>>, <<3, 1>>}
ReverseMaps == Distinct(DictSeqs(RevNames, Names, MaxEntries))
Terms == {<<"str", u>> : u \in Names} \cup {<<"pdict", u>> : u \in Names} \cup {<<"other">>}
Contexts == Distinct(DictSeqs(Keys1, Terms, IF Tier = "quick" THEN 2 ELSE MaxEntries))

\* which kinds of clash a record sequence contains: side (P/U) x canonical-canonical / canonical-synonym / synonym-synonym
ClashKinds(rs) ==
  UNION {UNION {
     (IF rs[i].p = rs[j].p THEN {"P-cc"} ELSE {}) \cup
     (IF rs[i].p \in rs[j].ps \/ rs[j].p \in rs[i].ps THEN {"P-cs"} ELSE {}) \cup
     (IF rs[i].ps \cap rs[j].ps # {} THEN {"P-ss"} ELSE {}) \cup
     (IF rs[i].u = rs[j].u THEN {"U-cc"} ELSE {}) \cup
     (IF rs[i].u \in rs[j].us \/ rs[j].u \in rs[i].us THEN {"U-cs"} ELSE {}) \cup
     (IF rs[i].us \cap rs[j].us # {} THEN {"U-ss"} ELSE {}) \cup
     (IF (rs[i].p \in rs[j].ps /\ rs[i].ps = {}) \/ (rs[j].p \in rs[i].ps /\ rs[j].ps = {}) THEN {"P-cs-bare"} ELSE {}) \cup
     (IF (rs[i].u \in rs[j].us /\ rs[i].us = {}) \/ (rs[j].u \in rs[i].us /\ rs[j].us = {}) THEN {"U-cs-bare"} ELSE {})
     : j \in (i + 1)..Len(rs)} : i \in 1..Len(rs)}
SigOf(op, r) == IF op.k = "new" THEN <<"new", Len(op.recs), ClashKinds(op.recs)>>
                ELSE IF op.k = "upgrade" THEN <<"upgrade", Len(op.data), Cardinality({op.data[i][2] : i \in 1..Len(op.data)})>>
                ELSE IF op.loader = "reverse" THEN <<"reverse", r.out[1], [i \in 1..Len(op.data) |-> <<op.data[i][2], Len(op.data[i][1])>>]>>
                ELSE <<op.loader, IF r.out[1] = "raise" THEN r.out[2] ELSE r.out[1], Len(op.data)>>
BInit == hist = <<>> /\ last = <<>> /\ res = [out |-> <<>>, conv |-> EmptyConv(D)] /\ sigs = <<>>
Do(op, r) == /\ hist' = Append(hist, op) /\ last' = (IF r.out[1] = "raise" THEN <<"raise", r.out[2]>> ELSE r.out) /\ res' = r
             /\ sigs' = Append(sigs, SigOf(op, r))
\* records are chosen one per step so that the frontier is spread over the workers
BNext ==
  \/ /\ Len(hist) = 0 /\ \E r \in ValidPool : Do([k |-> "new", recs |-> <<r>>, delim |-> D], Construct(<<r>>, D, TRUE))
  \/ /\ Len(hist) >= 1 /\ hist[Len(hist)].k = "new" /\ Len(hist[Len(hist)].recs) < MaxRecs
     /\ \E r \in ValidPool : LET rs == Append(hist[Len(hist)].recs, r) IN
           Do([k |-> "new", recs |-> rs, delim |-> D], Construct(rs, D, TRUE))
  \/ /\ Len(hist) = 0
     /\ \/ \E d \in PrefixMaps : Do([k |-> "load", loader |-> "prefix_map", data |-> d], FromPrefixMap(d, D, TRUE))
        \/ \E d \in PriorityMaps : Do([k |-> "load", loader |-> "priority", data |-> d], FromPriorityPrefixMap(d, D, TRUE))
        \/ \E d \in ReverseMaps : Do([k |-> "load", loader |-> "reverse", data |-> d], FromReversePrefixMap(d, D, TRUE))
        \/ \E d \in Contexts : Do([k |-> "load", loader |-> "jsonld", data |-> d], FromJsonLD(d, D, TRUE))
        \/ \E d \in PrefixMaps : Do([k |-> "upgrade", data |-> d], [out |-> Ok, conv |-> Construct(UpgradePrefixMap(d), D, TRUE).conv])
BSpec == BInit /\ [][BNext]_bvars

LastOp == hist[Len(hist)]
Inv_C04 == (Len(hist) > 0 /\ LastOp.k = "new") => P_C04(LastOp.recs, res)
\* duplicate detection through the loaders: the records a loader builds are subject to C04
Inv_C04load == (Len(hist) > 0 /\ LastOp.k = "load" /\ LastOp.loader = "prefix_map") =>
     P_C04([i \in 1..Len(LastOp.data) |-> Rec(LastOp.data[i][1], LastOp.data[i][2], {}, {}, NoPat)], res)
Inv_C13 == (Len(hist) > 0 /\ LastOp.k \in {"load", "upgrade"}) =>
     CASE LastOp.k = "upgrade" -> P_C13_upgrade(LastOp.data, UpgradePrefixMap(LastOp.data))
       [] LastOp.loader = "prefix_map" -> P_C13_pm(LastOp.data, res)
       [] LastOp.loader = "priority" -> P_C13_ppm(LastOp.data, res)
       [] LastOp.loader = "reverse" -> P_C13_rpm(LastOp.data, res)
       [] LastOp.loader = "jsonld" -> P_C13_jsonld(LastOp.data, res)
\* whatever a strict loader accepts satisfies the one-owner law
Inv_C13strict == (Len(hist) > 0 /\ res.out = Ok) => P_C05_inv(res.conv)
=============================================================================
