------------------------------- MODULE MC_Sim -------------------------------
(***************************************************************************)
(* Simulation model: LONG random behaviours of the whole converter world   *)
(* (constructors, incremental adds with all flags, chain, subconverter,    *)
(* the three remappings, applied to ANY live converter, derived ones       *)
(* included), far beyond the depth of the exhaustive models.  Run with     *)
(* `tlc -simulate`; every behaviour is replayed on the implementation.     *)
(* Alphabet: 1 'a', 2 'A' (folds to 'a'), 3 'b', 6 sharp s (folds to       *)
(* <<7,7>>), 7 's', 9 'd'.                                                 *)
(***************************************************************************)
EXTENDS World
CONSTANTS MaxConvs, MaxSteps
Fold(ch) == IF ch = 2 THEN <<1>> ELSE IF ch = 6 THEN <<7, 7>> ELSE <<ch>>
MCDefaultDelim == <<58>>
D == <<58>>
PNames == {<<>>, <<1>>, <<2>>, <<6>>, <<7, 7>>}
UNames == {<<1>>, <<2>>, <<1, 3>>, <<3>>}
Opt(S) == {{}} \cup {{x} : x \in S}
\* at most one synonym per record: the simulator enumerates ALL successors of a state before it picks one
ValidPool == {r \in {Rec(p, u, ps, us, NoPat) : p \in PNames, u \in UNames, ps \in Opt(PNames), us \in Opt(UNames)} :
                 ValidRec(r) /\ (r.ps = {} \/ r.us = {})}
PK == PNames \cup {<<9>>}
UK == UNames \cup {<<9>>}
Single(K, V) == {<<<<k, v>>>> : k \in K, v \in V}
Chains(K) == {<<<<t[1], t[2]>>, <<t[2], t[3]>>>> : t \in {q \in K \X K \X K : q[1] # q[2] /\ q[2] # q[3]}}
Subsets == {S \in SUBSET PK : Cardinality(S) <= 2} \cup {PK}
MCNext ==
  /\ Len(hist) < MaxSteps
  /\ \/ /\ Len(convs) < MaxConvs
        /\ \E r1 \in ValidPool : ANew(<<r1>>, D)
     \/ /\ Len(convs) >= 1
        /\ \E i \in 1..Len(convs) :
             \/ \E r \in ValidPool, cs \in BOOLEAN, mg \in BOOLEAN : AAdd(i, r, cs, mg, "record")
             \/ Len(convs) < MaxConvs /\ \E P \in Subsets : ASub(i, P)
             \/ Len(convs) < MaxConvs /\ \E m \in Single(PK, PK) \cup Chains(PK) : ARemap("remap_curie", i, m)
             \/ Len(convs) < MaxConvs /\ \E m \in Single(UK, UK) : ARemap("remap_uri", i, m)
             \/ Len(convs) < MaxConvs /\ \E m \in Single(PK, UK) : ARemap("rewire", i, m)
             \/ Len(convs) < MaxConvs /\ \E j \in 1..Len(convs), cs \in BOOLEAN : AChain(IF i = j THEN <<i>> ELSE <<i, j>>, cs)
MCSpec == Init /\ [][MCNext]_vars
Inv_Struct == \A c \in Live : P_C05_inv(c)
=============================================================================
