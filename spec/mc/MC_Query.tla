------------------------------ MODULE MC_Query -----------------------------
(***************************************************************************)
(* Bounded model for the query-level properties C01 C02 C03 C06 C07 C08:   *)
(* every strict converter of <= MaxRecs records over the pools below (one  *)
(* ANew step), every probe string up to length ProbeLen over the alphabet. *)
(* Alphabet: 1 = 'a', 2 = 'A' (casefolds to 'a'), 3 = 'b', 4 = delimiter   *)
(* character, 5 = '/'.                                                     *)
(***************************************************************************)
EXTENDS World
CONSTANTS MaxRecs, ProbeLen, Tier, MaxSyn

Fold(ch) == IF ch = 2 THEN <<1>> ELSE <<ch>>
Delim1 == <<4>>
Delim2 == <<4, 4>>
MCDefaultDelim == <<4>>

Alphabet == {1, 2, 3, 4}
Delims == {Delim1, Delim2}
\* CURIE prefixes never contain a delimiter character (quantifier of C02/C03)
PPool == IF Tier = "quick" THEN {<<>>, <<1>>, <<2>>} ELSE {<<>>, <<1>>, <<2>>, <<3>>}
\* URI prefixes: empty, a nested chain a < ab < aba, a sibling, and one that makes
\* "a:b" both a CURIE and a URI
UPool == IF MaxSyn = 0 THEN {<<>>, <<1>>, <<1, 3>>, <<1, 3, 1>>, <<1, 4>>, <<3>>}
         ELSE IF Tier = "quick" THEN {<<>>, <<1>>, <<1, 3>>, <<1, 4>>}
         ELSE {<<>>, <<1>>, <<1, 3>>, <<1, 3, 1>>, <<3>>, <<1, 4>>}

\* MaxSyn = 0: plain records only (used with three records: a chain of three nested URI prefixes)
Opt(S) == IF MaxSyn = 0 THEN {{}} ELSE {{}} \cup {{x} : x \in S}
RecPool == {Rec(p, u, ps, us, NoPat) : p \in PPool, u \in UPool, ps \in Opt(PPool), us \in Opt(UPool)}
ValidPool == {r \in RecPool : ValidRec(r)}
\* a canonical order on records so that each record SET is enumerated once
RECURSIVE SetLT(_, _)
RecKey(r) == <<r.p, r.u, SortStrings(r.ps), SortStrings(r.us)>>
KeyLT(a, b) == \/ LexLT(a[1], b[1])
               \/ a[1] = b[1] /\ LexLT(a[2], b[2])
               \/ a[1] = b[1] /\ a[2] = b[2] /\ Len(a[3]) < Len(b[3])
               \/ a[1] = b[1] /\ a[2] = b[2] /\ Len(a[3]) = Len(b[3]) /\ a[3] # b[3] /\ (a[3] = <<>> \/ LexLT(a[3][1], b[3][1]))
               \/ a[1] = b[1] /\ a[2] = b[2] /\ a[3] = b[3] /\ Len(a[4]) < Len(b[4])
               \/ a[1] = b[1] /\ a[2] = b[2] /\ a[3] = b[3] /\ Len(a[4]) = Len(b[4]) /\ a[4] # b[4] /\ (a[4] = <<>> \/ LexLT(a[4][1], b[4][1]))
SetLT(r1, r2) == KeyLT(RecKey(r1), RecKey(r2))
Probes == StringsUpTo(Alphabet, ProbeLen)

\* One record more per step, so that the frontier (and with it the invariant
\* evaluation) is spread over all TLC workers: step k constructs a converter from
\* the k records chosen so far.
MCNext ==
  \/ /\ Len(hist) = 0
     /\ \E d \in Delims : ANew(<<>>, d) \/ \E r \in ValidPool : ANew(<<r>>, d)
  \/ /\ Len(hist) >= 1 /\ Len(hist[Len(hist)].recs) >= 1 /\ Len(hist[Len(hist)].recs) < MaxRecs
     /\ LET prev == hist[Len(hist)] IN
        \E r \in ValidPool : SetLT(prev.recs[Len(prev.recs)], r) /\ ANew(Append(prev.recs, r), prev.delim)
MCSpec == Init /\ [][MCNext]_vars
\* the converter constructed by the last step, if it succeeded
Newest == IF last = Ok THEN {convs[Len(convs)]} ELSE {}

\* ---- the properties, one invariant each; the oracle is the operational spec ----
Inv_C01 == \A c \in Newest : LET A(m, md, x) == SpecA(c, m, md, x) IN \A s \in Probes : P_C01(c, s, A)
Inv_C02 == \A c \in Newest : LET A(m, md, x) == SpecA(c, m, md, x)  AP(m, md, p, id) == SpecAP(c, m, md, p, id)
                             IN \A s \in Probes : P_C02(c, s, A, AP)
Inv_C03 == \A c \in Newest : DelimFreePrefixes(c) =>
              LET A(m, md, x) == SpecA(c, m, md, x) IN \A s \in Probes : P_C03(c, s, A)
Inv_C06 == \A c \in Newest : LET A(m, md, x) == SpecA(c, m, md, x) IN \A s \in Probes : P_C06(c, s, A)
Inv_C07 == \A c \in Newest : LET A(m, md, x) == SpecA(c, m, md, x) IN \A s \in Probes : P_C07(c, s, A)
Inv_C08 == \A c \in Newest : LET A(m, md, x) == SpecA(c, m, md, x) IN \A s \in Probes : P_C08(c, s, A)
Inv_C08pair == \A c \in Newest : LET AP(m, md, p, id) == SpecAP(c, m, md, p, id) IN
                 \A p \in PPool \cup {<<3, 3>>}, id \in StringsUpTo(Alphabet, 2) : P_C08pair(c, p, id, AP)
Inv_Struct == \A c \in Newest : P_C05_inv(c)
\* witnesses against vacuity (checked as "never" properties by the harness, expected to be VIOLATED)
=============================================================================
