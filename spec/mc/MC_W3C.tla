------------------------------ MODULE MC_W3C -------------------------------
(***************************************************************************)
(* Exhaustive over every string of length <= MaxLen over one              *)
(* representative per character class: the state is the string built so    *)
(* far, the only action appends one class.                                 *)
(* 1 letter, 2 digit, 3 '_', 4 '.', 5 '-', 6 ':', 7 '/', 8 '#', 9 space,   *)
(* 10 tab, 11 newline, 12 '[', 13 ']', 14 non-ASCII letter, 15 NBSP.       *)
(***************************************************************************)
EXTENDS W3C
CONSTANTS MaxLen, Classes
VARIABLE str
MCLetters == {1}
MCDigits == {2}
MCWS == {9, 10, 11, 15}
WInit == str = <<>>
WNext == Len(str) < MaxLen /\ \E c \in Classes : str' = Append(str, c)
WSpec == WInit /\ [][WNext]_str
Inv_C20 == P_C20(str)
=============================================================================
