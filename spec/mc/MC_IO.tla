------------------------------- MODULE MC_IO --------------------------------
(***************************************************************************)
(* Bounded model for C14: strict converters of <= MaxRecs records over     *)
(* strings made of hazard CLASSES (1 plain, 2 backslash, 3 non-ASCII,      *)
(* 4 space), with <= 1 synonym and an optional pattern; every format and   *)
(* flag combination.                                                       *)
(***************************************************************************)
EXTENDS Writers
CONSTANTS MaxRecs
VARIABLES conv, op, res
ivars == <<conv, op, res>>
Fold(ch) == <<ch>>
MCDefaultDelim == <<58>>
Strs == {<<1>>, <<2>>, <<1, 2>>, <<3>>, <<1, 4, 1>>}
Opt(S) == {{}} \cup {{x} : x \in S}
Pats == {NoPat, <<<<2, 1>>>>}
Pool == {r \in {Rec(p, u, ps, {}, pat) : p \in Strs, u \in Strs, ps \in Opt(Strs), pat \in Pats} : ValidRec(r)}
IInit == conv = <<>> /\ op = <<>> /\ res = <<>>
INext ==
  \/ /\ op = <<>> /\ Len(conv) < MaxRecs
     /\ \E r \in Pool : /\ (IF conv = <<>> THEN TRUE ELSE LexLT(conv[Len(conv)].p, r.p))
                        /\ Construct(Append(conv, r), <<58>>, TRUE).out = Ok
                        /\ conv' = Append(conv, r) /\ UNCHANGED <<op, res>>
  \/ /\ op = <<>> /\ conv # <<>>
     /\ \E fmt \in {"epm", "jsonld", "shacl", "tsv"}, syn \in BOOLEAN, ex \in BOOLEAN :
          /\ op' = [fmt |-> fmt, syn |-> syn, expand |-> ex]
          /\ res' = <<RoundTrip(fmt, syn, ex, Fresh(conv, <<58>>))>>
          /\ UNCHANGED conv
ISpec == IInit /\ [][INext]_ivars
Inv_C14 == res # <<>> => P_C14(op.fmt, op.syn, Fresh(conv, <<58>>), res[1])
=============================================================================
