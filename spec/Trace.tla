------------------------------- MODULE Trace -------------------------------
(***************************************************************************)
(* Batch trace validator for the converter world (C01..C13).               *)
(*                                                                         *)
(* Input: one JSON file (env TRACE_FILE) holding a string table, the       *)
(* casefold table of every character that occurs, and N traces.  A trace   *)
(* is a list of events, one per public API call made on the real           *)
(* implementation: the operation with its arguments, its outcome, the      *)
(* projection of EVERY live converter after the call, and a table of query *)
(* answers.  The validator re-uses the operators of the model-checked      *)
(* specification:                                                          *)
(*   conformance  -- ApplyOp(pre, op) must give the logged outcome and the *)
(*                   logged post-state; Ans(post, m, md, x) must give each *)
(*                   logged answer;                                        *)
(*   monitors     -- the declarative property formulas of Props.tla are    *)
(*                   evaluated with the LOGGED answer table as oracle.     *)
(* Verdicts are total: a failed clause prints one FAIL line naming it, the *)
(* logged post-state is adopted, and the rest of the trace is still        *)
(* examined.  One DONE line per trace proves it was consumed to its end.   *)
(***************************************************************************)
EXTENDS Naturals, Sequences, FiniteSets, TLC, Json, IOUtils

D == JsonDeserialize(IOEnv.TRACE_FILE)
S(i) == D.strs[i]
FoldTab == D.fold
TFold(ch) == IF \E i \in 1..Len(FoldTab) : FoldTab[i][1] = ch
             THEN FoldTab[CHOOSE i \in 1..Len(FoldTab) : FoldTab[i][1] = ch][2]
             ELSE <<ch>>
TDefaultDelim == S(D.ddelim)
Focus == {D.focus[i] : i \in 1..Len(D.focus)}

INSTANCE Writers WITH FoldMap <- TFold, DefaultDelim <- TDefaultDelim

Traces == D.traces
N == Len(Traces)

---------------------------------------------------------------------------
\* JSON -> specification values
SSet(js) == {S(js[k]) : k \in 1..Len(js)}
JRec(j) == Rec(S(j.p), S(j.u), SSet(j.ps), SSet(j.us), IF Len(j.pat) = 0 THEN <<>> ELSE <<S(j.pat[1])>>)
JRecs(js) == [k \in 1..Len(js) |-> JRec(js[k])]
JMap(m) == {<<S(m[k][1]), S(m[k][2])>> : k \in 1..Len(m)}
JPairs(m) == [k \in 1..Len(m) |-> <<S(m[k][1]), S(m[k][2])>>]
JConv(j) == [delim |-> S(j.delim), recs |-> JRecs(j.recs), pm |-> JMap(j.pm), s2p |-> JMap(j.s2p),
             rpm |-> JMap(j.rpm), trie |-> JMap(j.trie), pat |-> JMap(j.pat)]
\* the converters after event l of trace t; an entry {"same": true} stands for the value after the previous event
RECURSIVE PostOf(_, _)
PostOf(t, l) == IF l = 0 THEN <<>>
                ELSE LET js == D.traces[t].events[l].convs  prev == PostOf(t, l - 1) IN
                     [k \in 1..Len(js) |-> IF "same" \in DOMAIN js[k] THEN prev[k] ELSE JConv(js[k])]
\* synonym lists without repetition (the quantifiers speak of sets)
CleanRec(j) == Cardinality(SSet(j.ps)) = Len(j.ps) /\ Cardinality(SSet(j.us)) = Len(j.us)

\* decode a logged outcome of method m
Kind(m) == CASE m \in {"parse_uri", "parse_curie", "parse"} -> "pair"
             [] m \in {"is_uri", "is_curie"} -> "bool"
             [] m \in {"expand_all", "expand_pair_all"} -> "list"
             [] OTHER -> "str"
DecVal(m, v) == CASE Kind(m) = "pair" -> <<S(v[1]), S(v[2])>>
                  [] Kind(m) = "bool" -> v
                  [] Kind(m) = "list" -> <<S(v[1]), {S(v[k]) : k \in 2..Len(v)}>>
                  [] OTHER -> S(v)
Dec(m, o) == CASE o[1] = "val" -> Val(DecVal(m, o[2]))
               [] o[1] = "raise" -> Raise(o[2])
               [] OTHER -> <<o[1]>>
\* an expand_all list must not repeat entries: 1 + number of synonyms
ListOK(m, o) == (o[1] = "val" /\ Kind(m) = "list") => Cardinality({o[2][k] : k \in 1..Len(o[2])}) = Len(o[2])

\* answer keys: "method", "method@s", "method@p", "method@sp", "method@l" (legacy return_none=False)
KeyOf(m, md) == IF md.s /\ md.p THEN m \o "@sp" ELSE IF md.s THEN m \o "@s" ELSE IF md.p THEN m \o "@p"
                ELSE IF ~md.rn THEN m \o "@l" ELSE m
Modes == <<Mode(FALSE, FALSE, TRUE), Mode(TRUE, FALSE, TRUE), Mode(FALSE, TRUE, TRUE), Mode(TRUE, TRUE, TRUE), Mode(FALSE, FALSE, FALSE)>>
Suffix == <<"", "@s", "@p", "@sp", "@l">>
StrMethods == {"parse_uri", "compress", "is_uri", "parse_curie", "expand", "expand_all", "is_curie",
               "standardize_prefix", "standardize_curie", "standardize_uri", "parse",
               "compress_or_standardize", "expand_or_standardize", "compress_strict", "expand_strict"}
PairMethods == {"expand_pair", "expand_reference", "expand_pair_all", "format_curie"}
AllKeys(ms) == {<<m, k>> : m \in ms, k \in 1..5}

---------------------------------------------------------------------------
\* loader inputs
JPriority(data) == [k \in 1..Len(data) |-> <<S(data[k][1]), [j \in 1..Len(data[k][2]) |-> S(data[k][2][j])]>>]
JTerm(t) == IF t[1] \in {"str", "pdict"} THEN <<t[1], S(t[2])>> ELSE <<"other">>
JContext(data) == [k \in 1..Len(data) |-> <<S(data[k][1]), JTerm(data[k][2])>>]
LoadOp(op) ==
  CASE op.loader = "prefix_map" -> FromPrefixMap(JPairs(op.data), S(op.delim), op.strict)
    [] op.loader = "priority"   -> FromPriorityPrefixMap(JPriority(op.data), S(op.delim), op.strict)
    [] op.loader = "reverse"    -> FromReversePrefixMap(JPairs(op.data), S(op.delim), op.strict)
    [] op.loader = "epm"        -> FromEPM(JRecs(op.data), S(op.delim), op.strict)
    [] op.loader = "jsonld"     -> FromJsonLD(JContext(op.data), S(op.delim), op.strict)
LoadMonOK(op, r) ==
  CASE op.loader = "prefix_map" -> P_C13_pm(JPairs(op.data), r)
    [] op.loader = "priority"   -> P_C13_ppm(JPriority(op.data), r)
    [] op.loader = "reverse"    -> P_C13_rpm(JPairs(op.data), r)
    [] op.loader = "jsonld"     -> P_C13_jsonld(JContext(op.data), r)
    [] OTHER -> TRUE

\* the operation of an event, applied to the adopted pre-state (a sequence of converters)
\* result: [out, convs, tgt]  tgt = index of the converter created or modified (0: none)
ApplyOp(pre, op) ==
  CASE op.k = "new" ->
         LET r == Construct(JRecs(op.recs), S(op.delim), op.strict) IN
         [out |-> r.out, convs |-> IF r.out = Ok THEN Append(pre, r.conv) ELSE pre,
          tgt |-> IF r.out = Ok THEN Len(pre) + 1 ELSE 0]
    [] op.k = "add" ->
         \* the Record is built first in both variants (pydantic validators), then added
         LET r == AddPrefix(pre[op.i], JRec(op.rec), op.cs, op.mg) IN
         [out |-> r.out, convs |-> [pre EXCEPT ![op.i] = r.conv], tgt |-> op.i]
    [] op.k = "chain" ->
         LET r == Chain([k \in 1..Len(op.is) |-> pre[op.is[k]]], op.cs) IN
         [out |-> r.out, convs |-> IF r.out = Ok THEN Append(pre, r.conv) ELSE pre,
          tgt |-> IF r.out = Ok THEN Len(pre) + 1 ELSE 0]
    [] op.k = "sub" ->
         LET r == Subconverter(pre[op.i], SSet(op.P)) IN
         [out |-> r.out, convs |-> IF r.out = Ok THEN Append(pre, r.conv) ELSE pre,
          tgt |-> IF r.out = Ok THEN Len(pre) + 1 ELSE 0]
    [] op.k \in {"remap_curie", "remap_uri", "rewire"} ->
         LET m == JPairs(op.m)
             r == CASE op.k = "remap_curie" -> RemapCurie(pre[op.i], m)
                    [] op.k = "remap_uri" -> RemapURI(pre[op.i], m)
                    [] OTHER -> Rewire(pre[op.i], m) IN
         [out |-> r.out, convs |-> IF r.out = Ok THEN Append(pre, r.conv) ELSE pre,
          tgt |-> IF r.out = Ok THEN Len(pre) + 1 ELSE 0]
    [] op.k = "mkrec" ->
         [out |-> IF ValidRec(JRec(op.rec)) THEN Ok ELSE Raise("valueerror"), convs |-> pre, tgt |-> 0]
    [] op.k = "load" ->
         LET r == LoadOp(op) IN
         [out |-> r.out, convs |-> IF r.out = Ok THEN Append(pre, r.conv) ELSE pre,
          tgt |-> IF r.out = Ok THEN Len(pre) + 1 ELSE 0]
    [] op.k = "upgrade" -> [out |-> <<"val">>, convs |-> pre, tgt |-> 0]
    [] OTHER -> [out |-> Ok, convs |-> pre, tgt |-> 0]       \* "probe": queries only; "write": a file, no converter changes

\* files (spec/System.tla).  A read event names the write event (op.w) whose file it reads: the document is the one the
\* specification derives from the source converter AS LOGGED BEFORE THAT WRITE -- whatever happened to it since
WriteOp(t, op) == Traces[t].events[op.w].op
SrcOf(t, op) == PostOf(t, op.w - 1)[WriteOp(t, op).i]
ReadApply(t, pre, op) ==
  LET w == WriteOp(t, op)  src == SrcOf(t, op)
      r == ReadFile([fmt |-> w.fmt, syn |-> w.syn, expand |-> w.expand, delim |-> src.delim, doc |-> DocOf(w.fmt, w.syn, w.expand, src)]) IN
  [out |-> r.out, convs |-> IF r.out = Ok THEN Append(pre, r.conv) ELSE pre, tgt |-> IF r.out = Ok THEN Len(pre) + 1 ELSE 0]
\* read-back of synonym output is non-strict: the property fixes the prefix map and the patterns only
ReadLoose(t, op) == op.k = "read" /\ WriteOp(t, op).syn /\ WriteOp(t, op).fmt \in {"jsonld", "shacl"}
\* writing an empty converter as SHACL is outside C14 (and the code's behaviour there is not specified)
ReadJudged(t, op) == op.k = "read" => (WriteOp(t, op).fmt = "shacl" => Len(SrcOf(t, op).recs) > 0)
ReadMonBad(t, pre, post, op, log) ==
  IF op.k = "read" /\ "C14" \in Focus /\ InC14(WriteOp(t, op).fmt, WriteOp(t, op).syn, SrcOf(t, op))
  THEN LET r == [out |-> IF log[1] = "raise" THEN Raise(log[3]) ELSE <<log[1]>>,
                 conv |-> IF Len(post) > Len(pre) THEN post[Len(post)] ELSE EmptyConv(TDefaultDelim)] IN
       IF P_C14(WriteOp(t, op).fmt, WriteOp(t, op).syn, SrcOf(t, op), r) THEN {} ELSE {<<"mon", "C14", WriteOp(t, op).fmt>>}
  ELSE {}

\* upgrade_prefix_map returns records, not a converter
UpgradeBad(op, log) ==
  IF op.k # "upgrade" THEN {}
  ELSE LET d == JPairs(op.data)  rs == JRecs(log[2]) IN
       (IF log[1] # "val" THEN {<<"out", "upgrade">>} ELSE
        (IF SeqToSet(rs) # SeqToSet(UpgradePrefixMap(d)) \/ Len(rs) # Len(UpgradePrefixMap(d)) THEN {<<"post", "upgrade", "recs">>} ELSE {}) \cup
        (IF "C13" \in Focus /\ ~P_C13_upgrade(d, rs) THEN {<<"mon", "C13">>} ELSE {}))

\* the converters an operation reads; the properties quantify over consistent (strict) inputs,
\* so an event whose input was already corrupted (reported when it happened) is not judged again
InputIdx(op) == CASE op.k \in {"add", "sub", "remap_curie", "remap_uri", "rewire", "discover"} -> {op.i}
                  [] op.k = "chain" -> {op.is[k] : k \in 1..Len(op.is)}
                  [] OTHER -> {}
InputsOK(pre, op) == \A i \in InputIdx(op) : i \in 1..Len(pre) /\ P_C05_inv(pre[i])
\* the declarative monitors only need the RECORDS of the inputs to form a strict converter: a converter built through the
\* public API whose lookup structures went stale is still an input the properties quantify over
InputsStrict(pre, op) == \A i \in InputIdx(op) : i \in 1..Len(pre) /\ OneOwner(pre[i])

\* outcome comparison: kind, exception family / class as far as the properties fix them
OutMatch(spec, log) ==
  IF spec[1] # "raise" THEN log[1] = spec[1]
  ELSE /\ log[1] = "raise"
       /\ CASE spec[2] = "valueerror" -> log[2] \in {"valueerror", "curies"}
            [] spec[2] = "curies" -> log[2] = "curies"
            [] OTHER -> log[3] = spec[2]                       \* a specific class name
DupsOf(log) == {<<{JRec(log[4][k][1]), JRec(log[4][k][2])}, S(log[4][k][3])>> : k \in 1..Len(log[4])}
DupsMatch(spec, log) == (spec[1] = "raise" /\ Len(spec) = 3 /\ log[1] = "raise" /\ Len(log) >= 4) => DupsOf(log) = spec[3]

ConvDiff(a, b) ==    \* names of the components in which two converter values differ
  (IF a.delim # b.delim THEN {"delim"} ELSE {}) \cup
  (IF SeqToSet(a.recs) # SeqToSet(b.recs) \/ Len(a.recs) # Len(b.recs) THEN {"recs"} ELSE {}) \cup
  (IF a.pm # b.pm THEN {"pm"} ELSE {}) \cup (IF a.s2p # b.s2p THEN {"s2p"} ELSE {}) \cup
  (IF a.rpm # b.rpm THEN {"rpm"} ELSE {}) \cup (IF a.trie # b.trie THEN {"trie"} ELSE {}) \cup
  (IF a.pat # b.pat THEN {"pat"} ELSE {})

\* introspection views logged next to the projection agree with the logged records
ViewsOK(j) ==
  LET c == JConv(j) IN
  /\ JMap(j.bimap) = Bimap(c) /\ JMap(j.rbimap) = ReverseBimap(c)
  /\ SSet(j.prefixes) = GetPrefixes(c, FALSE) /\ SSet(j.prefixes_syn) = GetPrefixes(c, TRUE)
  /\ SSet(j.uprefixes) = GetURIPrefixes(c, FALSE) /\ SSet(j.uprefixes_syn) = GetURIPrefixes(c, TRUE)

---------------------------------------------------------------------------
\* logged answer tables as oracles
RowOf(ev, i, x) == LET ks == {k \in 1..Len(ev.pt) : ev.pt[k].i = i /\ S(ev.pt[k].x) = x} IN
                   IF ks = {} THEN 0 ELSE CHOOSE k \in ks : TRUE
LogA(ev, i, m, md, x) ==
  LET k == RowOf(ev, i, x)  key == KeyOf(m, md) IN
  IF k = 0 THEN <<"missing">>
  ELSE IF key \notin DOMAIN ev.pt[k].a THEN <<"missing">> ELSE Dec(m, ev.pt[k].a[key])
PRowOf(ev, i, p, id) == LET ks == {k \in 1..Len(ev.ppt) : ev.ppt[k].i = i /\ S(ev.ppt[k].p) = p /\ S(ev.ppt[k].id) = id} IN
                        IF ks = {} THEN 0 ELSE CHOOSE k \in ks : TRUE
LogAP(ev, i, m, md, p, id) ==
  LET k == PRowOf(ev, i, p, id)  key == KeyOf(m, md) IN
  IF k = 0 THEN <<"missing">>
  ELSE IF key \notin DOMAIN ev.ppt[k].a THEN <<"missing">> ELSE Dec(m, ev.ppt[k].a[key])

\* conformance of one row of answers with the operational specification
RowBad(c, row) ==
  {<<"ans", kk[1] \o Suffix[kk[2]]>> : kk \in {kk \in AllKeys(StrMethods) :
      /\ (kk[1] \o Suffix[kk[2]]) \in DOMAIN row.a
      /\ \/ ~ListOK(kk[1], row.a[kk[1] \o Suffix[kk[2]]])
         \/ Dec(kk[1], row.a[kk[1] \o Suffix[kk[2]]]) # Ans(c, kk[1], Modes[kk[2]], S(row.x))}} \cup
  \* passthrough hands back x UNCHANGED where the default gives None: asked with the same text as an instance of a str
  \* subclass, the object itself must come back (logged as  <method>@p#same)
  {<<"ans", mm \o "@p">> : mm \in {mm \in StrMethods :
      /\ (mm \o "@p#same") \in DOMAIN row.a
      /\ row.a[mm \o "@p#same"] = <<"val", FALSE>>
      /\ Ans(c, mm, Modes[1], S(row.x)) = None1}}
PRowBad(c, row) ==
  {<<"ans", kk[1] \o Suffix[kk[2]]>> : kk \in {kk \in AllKeys(PairMethods) :
      /\ (kk[1] \o Suffix[kk[2]]) \in DOMAIN row.a
      /\ \/ ~ListOK(kk[1], row.a[kk[1] \o Suffix[kk[2]]])
         \/ Dec(kk[1], row.a[kk[1] \o Suffix[kk[2]]]) # AnsPair(c, kk[1], Modes[kk[2]], S(row.p), S(row.id))}}

\* monitors: declarative property formulas on logged values.  Rows with b = TRUE are the
\* base probes; rows with f = TRUE carry the whole mode matrix.
MonBad(ev, i, c) ==
  LET A(m, md, x) == LogA(ev, i, m, md, x)
      AP(m, md, p, id) == LogAP(ev, i, m, md, p, id)
      base == {S(ev.pt[k].x) : k \in {k \in 1..Len(ev.pt) : ev.pt[k].i = i /\ ev.pt[k].b}}
      full == {S(ev.pt[k].x) : k \in {k \in 1..Len(ev.pt) : ev.pt[k].i = i /\ ev.pt[k].f}}
      pfull == {k \in 1..Len(ev.ppt) : ev.ppt[k].i = i /\ ev.ppt[k].f}
      strictc == OneOwner(c)
  IN
  (IF "C01" \in Focus /\ strictc /\ \E s \in base : ~P_C01(c, s, A) THEN {<<"mon", "C01">>} ELSE {}) \cup
  (IF "C02" \in Focus /\ strictc /\ \E s \in base : ~P_C02(c, s, A, AP) THEN {<<"mon", "C02">>} ELSE {}) \cup
  (IF "C03" \in Focus /\ strictc /\ DelimFreePrefixes(c) /\ \E s \in base : ~P_C03(c, s, A) THEN {<<"mon", "C03">>} ELSE {}) \cup
  (IF "C06" \in Focus /\ strictc /\ \E s \in base : ~P_C06(c, s, A) THEN {<<"mon", "C06">>} ELSE {}) \cup
  (IF "C07" \in Focus /\ strictc /\ \E s \in base : ~P_C07(c, s, A) THEN {<<"mon", "C07">>} ELSE {}) \cup
  \* compress_strict / expand_strict ARE the strict=True calls: the logged outcomes agree to the exception CLASS
  (IF "C07" \in Focus /\ \E k \in {k \in 1..Len(ev.pt) : ev.pt[k].i = i} :
        LET a == ev.pt[k].a IN
        \/ ("expand_strict" \in DOMAIN a /\ "expand@s" \in DOMAIN a /\ a["expand_strict"] # a["expand@s"])
        \/ ("compress_strict" \in DOMAIN a /\ "compress@s" \in DOMAIN a /\ a["compress_strict"] # a["compress@s"])
   THEN {<<"mon", "C07", "strict_variant_differs">>} ELSE {}) \cup
  (IF "C08" \in Focus /\ strictc /\ \E s \in full : ~P_C08(c, s, A) THEN {<<"mon", "C08">>} ELSE {}) \cup
  (IF "C08" \in Focus /\ strictc /\ \E k \in pfull : ~P_C08pair(c, S(ev.ppt[k].p), S(ev.ppt[k].id), AP) THEN {<<"mon", "C08p">>} ELSE {})

\* per-operation declarative monitors on the logged pre/post converters
OpMonBad(pre, post, op, log) ==
  LET r == [out |-> IF log[1] = "raise" THEN Raise(log[3]) ELSE <<log[1]>>,
            conv |-> IF Len(post) > Len(pre) THEN post[Len(post)] ELSE IF op.k = "add" THEN post[op.i] ELSE EmptyConv(TDefaultDelim)]
      rv == [r EXCEPT !.out = IF log[1] = "raise" THEN Raise("valueerror") ELSE @]
  IN
  CASE op.k = "add" /\ "C05" \in Focus /\ OneOwner(pre[op.i]) /\ ValidRec(JRec(op.rec)) ->
         IF P_C05_step(pre[op.i], JRec(op.rec), op.cs, op.mg, rv) THEN {} ELSE {<<"mon", "C05">>}
    [] op.k = "chain" /\ "C09" \in Focus /\ Len(op.is) > 0 ->
         IF P_C09_chain([k \in 1..Len(op.is) |-> pre[op.is[k]]], op.cs, rv) THEN {} ELSE {<<"mon", "C09">>}
    [] op.k = "sub" /\ "C09" \in Focus ->
         IF P_C09_sub(pre[op.i], SSet(op.P), rv) THEN {} ELSE {<<"mon", "C09">>}
    [] op.k = "remap_curie" /\ "C11" \in Focus ->
         IF P_C11(pre[op.i], JPairs(op.m), r) THEN {} ELSE {<<"mon", "C11">>}
    [] op.k = "remap_uri" /\ "C12" \in Focus ->
         IF P_C12_uri(pre[op.i], JPairs(op.m), r) THEN {} ELSE {<<"mon", "C12">>}
    [] op.k = "rewire" /\ "C12" \in Focus ->
         IF P_C12_rewire(pre[op.i], JPairs(op.m), r) THEN {} ELSE {<<"mon", "C12">>}
    [] op.k = "load" /\ "C13" \in Focus /\ op.strict ->
         IF LoadMonOK(op, r) THEN {} ELSE {<<"mon", "C13">>}
    [] op.k = "new" /\ "C04" \in Focus /\ op.strict ->
         IF P_C04(JRecs(op.recs), [r EXCEPT !.out = IF log[1] = "raise" THEN <<"raise", log[3], DupsOf(log)>> ELSE @])
         THEN {} ELSE {<<"mon", "C04">>}
    [] OTHER -> {}

\* C05: "answers every query exactly as a converter freshly constructed from its current records would".  A `new` event marked
\* fresh_of = i built a converter from copies of converter i's records and asked both the same questions: the two LOGGED
\* answers must be identical (raw comparison: order of lists, exception class)
FreshBad(ev) ==
  IF "fresh_of" \notin DOMAIN ev.op \/ ev.out[1] # "ok" THEN {}
  ELSE LET i == ev.op.fresh_of  j == Len(ev.convs) IN
       (IF \E q1, q2 \in 1..Len(ev.pt) :
              /\ ev.pt[q1].i = i /\ ev.pt[q2].i = j /\ ev.pt[q1].x = ev.pt[q2].x
              /\ \E key \in (DOMAIN ev.pt[q1].a) \cap (DOMAIN ev.pt[q2].a) : ev.pt[q1].a[key] # ev.pt[q2].a[key]
        THEN {<<"mon", "C05", "fresh_converter_answers_differently">>} ELSE {}) \cup
       (IF \E q1, q2 \in 1..Len(ev.ppt) :
              /\ ev.ppt[q1].i = i /\ ev.ppt[q2].i = j /\ ev.ppt[q1].p = ev.ppt[q2].p /\ ev.ppt[q1].id = ev.ppt[q2].id
              /\ \E key \in (DOMAIN ev.ppt[q1].a) \cap (DOMAIN ev.ppt[q2].a) : ev.ppt[q1].a[key] # ev.ppt[q2].a[key]
        THEN {<<"mon", "C05", "fresh_converter_answers_differently">>} ELSE {})

---------------------------------------------------------------------------
PreOf(t, l) == PostOf(t, l - 1)

EventBad(t, l) ==
  LET ev == Traces[t].events[l]
      pre == PreOf(t, l)
      post == PostOf(t, l)
      r == IF ev.op.k = "read" THEN ReadApply(t, pre, ev.op) ELSE ApplyOp(pre, ev.op)
      \* non-strict construction is specified (overwrite order) but no property speaks about it: its clauses carry
      \* their own name so that they are never attributed to C04
      k == IF ev.op.k = "new" /\ ~ev.op.strict THEN "new_nonstrict" ELSE ev.op.k
      \* discover(converter=...) appends a converter whose content is C19's business: here only the frame is judged
      ok == InputsOK(pre, ev.op) /\ ev.op.k # "discover" /\ ReadJudged(t, ev.op)
      \* the answers logged right after an incremental step are judged against the converter the step SHOULD have produced
      \* (identical to the logged one whenever the step conforms): a converter built through the public API answers as its
      \* history demands, whatever the step did to the records
      exp == IF ok /\ ev.op.k = "add" /\ r.tgt # 0 /\ r.tgt <= Len(post) /\ Len(r.convs) = Len(post)
             THEN [post EXCEPT ![r.tgt] = r.convs[r.tgt]] ELSE post
  IN
  (IF ok /\ ~OutMatch(r.out, ev.out) THEN {<<"out", k>>} ELSE {}) \cup
  (IF ok /\ ~DupsMatch(r.out, ev.out) THEN {<<"dups", k>>} ELSE {}) \cup
  (IF ok /\ Len(post) # Len(r.convs) THEN {<<"nconv", k>>} ELSE {}) \cup
  \* the converter created / modified by the call
  (IF ok /\ r.tgt # 0 /\ r.tgt <= Len(post) /\ "inexact" \notin DOMAIN ev
   THEN {<<"post", k, x>> : x \in ConvDiff(r.convs[r.tgt], post[r.tgt]) \
                                   \* no property fixes the delimiter of a DERIVED converter (the code uses the default)
                                   ((IF k \in {"chain", "sub", "remap_curie", "remap_uri", "rewire"} THEN {"delim"} ELSE {}) \cup
                                    (IF ReadLoose(t, ev.op) THEN {"recs", "s2p", "rpm", "trie"} ELSE {}))} ELSE {}) \cup
  \* every other converter is untouched (C10), component by component
  UNION {{<<"frame", k, x>> : x \in ConvDiff(pre[i], post[i]) \cup
                                   \* an input is left as it was: also the ORDER of its records list (both sides are logged values)
                                   (IF pre[i].recs # post[i].recs /\ "recs" \notin ConvDiff(pre[i], post[i]) THEN {"recs_order"} ELSE {})} :
            i \in {i \in 1..Len(pre) : i <= Len(post) /\ i # r.tgt}} \cup
  (IF \E i \in 1..Len(ev.convs) : "same" \notin DOMAIN ev.convs[i] /\ ~ViewsOK(ev.convs[i]) THEN {<<"views", k>>} ELSE {}) \cup
  UNION {RowBad(exp[ev.pt[q].i], ev.pt[q]) : q \in 1..Len(ev.pt)} \cup
  UNION {PRowBad(exp[ev.ppt[q].i], ev.ppt[q]) : q \in 1..Len(ev.ppt)} \cup
  UNION {MonBad(ev, i, exp[i]) : i \in {ev.pt[q].i : q \in 1..Len(ev.pt)} \cup {ev.ppt[q].i : q \in 1..Len(ev.ppt)}} \cup
  (IF InputsStrict(pre, ev.op) THEN OpMonBad(pre, post, ev.op, ev.out) ELSE {}) \cup
  ReadMonBad(t, pre, post, ev.op, ev.out) \cup
  (IF "C05" \in Focus THEN FreshBad(ev) ELSE {}) \cup
  UpgradeBad(ev.op, ev.out)

VARIABLES tid, l
tvars == <<tid, l>>
TInit == tid \in 1..N /\ l = 1
TNext == l <= Len(Traces[tid].events) /\ l' = l + 1 /\ UNCHANGED tid
TSpec == TInit /\ [][TNext]_tvars

\* evaluated once per (trace, position): report the clauses event l-1 failed
Report == /\ l > 1 => \A b \in EventBad(tid, l - 1) : PrintT(<<"FAIL", tid, l - 1, b>>)
          /\ l = Len(Traces[tid].events) + 1 => PrintT(<<"DONE", tid>>)
=============================================================================
