SPECIFICATION TSpec
INVARIANT Report
CHECK_DEADLOCK FALSE
