------------------------------- MODULE TraceIO ------------------------------
(***************************************************************************)
(* Batch validator for write-then-read round trips (C14), TraceFn scheme.  *)
(***************************************************************************)
EXTENDS Naturals, Sequences, FiniteSets, TLC, Json, IOUtils
D == JsonDeserialize(IOEnv.TRACE_FILE)
S(i) == D.strs[i]
TFold(ch) == <<ch>>
INSTANCE Writers WITH FoldMap <- TFold, DefaultDelim <- <<58>>
SSet(js) == {S(js[k]) : k \in 1..Len(js)}
JRec(j) == Rec(S(j.p), S(j.u), SSet(j.ps), SSet(j.us), IF Len(j.pat) = 0 THEN <<>> ELSE <<S(j.pat[1])>>)
JMap(m) == {<<S(m[k][1]), S(m[k][2])>> : k \in 1..Len(m)}
JConv(j) == [delim |-> S(j.delim), recs |-> [k \in 1..Len(j.recs) |-> JRec(j.recs[k])], pm |-> JMap(j.pm), s2p |-> JMap(j.s2p),
             rpm |-> JMap(j.rpm), trie |-> JMap(j.trie), pat |-> JMap(j.pat)]
Convs == [k \in 1..Len(D.convs) |-> JConv(D.convs[k])]
Diff(a, b) ==
  (IF SeqToSet(a.recs) # SeqToSet(b.recs) \/ Len(a.recs) # Len(b.recs) THEN {"recs"} ELSE {}) \cup
  (IF a.pm # b.pm THEN {"pm"} ELSE {}) \cup (IF a.s2p # b.s2p THEN {"s2p"} ELSE {}) \cup
  (IF a.rpm # b.rpm THEN {"rpm"} ELSE {}) \cup (IF a.trie # b.trie THEN {"trie"} ELSE {}) \cup (IF a.pat # b.pat THEN {"pat"} ELSE {})
CallBad(c) ==
  LET cv == Convs[c.conv]
      spec == RoundTrip(c.fmt, c.syn, c.expand, cv)
      r == [out |-> IF c.back[1] = "ok" THEN Ok ELSE Raise(c.back[3]), conv |-> IF c.back[1] = "ok" THEN JConv(c.back[2]) ELSE EmptyConv(<<58>>)]
  IN IF c.back[1] # "ok" THEN {"post.read_after_write." \o c.fmt \o ".raise"}
     ELSE {"post.read_after_write." \o c.fmt \o "." \o x : x \in Diff(spec.conv, r.conv) \cap
              \* synonym output is read back non-strictly: only the prefix map (and the patterns) are fixed by the property
              (IF c.syn /\ c.fmt \in {"jsonld", "shacl"} THEN {"pm", "pat"} ELSE {"recs", "pm", "s2p", "rpm", "trie", "pat"})} \cup
          (IF ~P_C14(c.fmt, c.syn, cv, r) THEN {"mon.C14." \o c.fmt} ELSE {})
Groups == D.groups
VARIABLES g, step
fvars == <<g, step>>
FInit == g \in 1..Len(Groups) /\ step = 0
FNext == step = 0 /\ step' = 1 /\ UNCHANGED g
FSpec == FInit /\ [][FNext]_fvars
Report == step = 1 =>
   /\ \A k \in 1..Len(Groups[g]) : \A b \in CallBad(Groups[g][k]) : PrintT(<<"FAIL", g, k, <<b>>>>)
   /\ PrintT(<<"DONE", g>>)
=============================================================================
