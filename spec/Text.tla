------------------------------- MODULE Text -------------------------------
(***************************************************************************)
(* Strings are sequences of natural numbers (character codes).  In the     *)
(* bounded models the codes are small integers; in trace validation they   *)
(* are real Unicode code points.  Every operator here is alphabet          *)
(* agnostic and mirrors one Python str primitive used by `curies`.         *)
(***************************************************************************)
EXTENDS Naturals, Sequences, FiniteSets

IsPfx(p, s) == Len(p) <= Len(s) /\ SubSeq(s, 1, Len(p)) = p      \* str.startswith
IsProperPfx(p, s) == IsPfx(p, s) /\ Len(p) < Len(s)
Drop(s, n) == SubSeq(s, n + 1, Len(s))                            \* s[n:]
Take(s, n) == SubSeq(s, 1, n)                                     \* s[:n]

\* index of the first occurrence of sep (non-empty) in s at or after i; 0 if none
RECURSIVE FindFrom(_, _, _)
FindFrom(s, sep, i) ==
  IF i + Len(sep) - 1 > Len(s) THEN 0
  ELSE IF SubSeq(s, i, i + Len(sep) - 1) = sep THEN i
  ELSE FindFrom(s, sep, i + 1)
Find(s, sep) == FindFrom(s, sep, 1)                               \* str.find + 1
Contains(s, sep) == Find(s, sep) # 0                              \* sep in s

\* index of the last occurrence of sep in s; 0 if none             (str.rfind + 1)
RECURSIVE RFindFrom(_, _, _)
RFindFrom(s, sep, i) ==
  IF i < 1 THEN 0
  ELSE IF SubSeq(s, i, i + Len(sep) - 1) = sep THEN i
  ELSE RFindFrom(s, sep, i - 1)
RFind(s, sep) == RFindFrom(s, sep, Len(s) - Len(sep) + 1)

\* str.partition(sep): <<before, after>> of the FIRST occurrence (caller checks Contains)
PartBefore(s, sep) == Take(s, Find(s, sep) - 1)
PartAfter(s, sep)  == Drop(s, Find(s, sep) + Len(sep) - 1)
\* str.rsplit(sep, 1): <<before, after>> of the LAST occurrence
RPartBefore(s, sep) == Take(s, RFind(s, sep) - 1)
RPartAfter(s, sep)  == Drop(s, RFind(s, sep) + Len(sep) - 1)

\* Python's str ordering: lexicographic on code points
RECURSIVE LexLT(_, _)
LexLT(a, b) == IF a = <<>> THEN b # <<>>
               ELSE IF b = <<>> THEN FALSE
               ELSE IF a[1] < b[1] THEN TRUE
               ELSE IF a[1] > b[1] THEN FALSE
               ELSE LexLT(Tail(a), Tail(b))
LexLE(a, b) == a = b \/ LexLT(a, b)

\* the least element of a non-empty set of strings
LexMin(S) == CHOOSE x \in S : \A y \in S : LexLE(x, y)
\* sorted(S) for a set of strings
RECURSIVE SortStrings(_)
SortStrings(S) == IF S = {} THEN <<>> ELSE LET m == LexMin(S) IN <<m>> \o SortStrings(S \ {m})

SeqToSet(s) == {s[i] : i \in 1..Len(s)}

\* all strings over alphabet A with length <= n
RECURSIVE StringsUpTo(_, _)
StringsUpTo(A, n) == IF n = 0 THEN {<<>>}
                     ELSE LET S == StringsUpTo(A, n - 1) IN S \cup {Append(s, a) : s \in S, a \in A}

\* maps are finite sets of <<key, value>> pairs with unique keys
Keys(m) == {kv[1] : kv \in m}
Vals(m) == {kv[2] : kv \in m}
Has(m, k) == \E kv \in m : kv[1] = k
\* total: <<0>> (no string of the models or traces contains the code 0) for a missing key, so that
\* the trace validator never crashes on an inconsistent logged state
Get(m, k) == IF \E kv \in m : kv[1] = k THEN (CHOOSE kv \in m : kv[1] = k)[2] ELSE <<0>>
Put(m, k, v) == {kv \in m : kv[1] # k} \cup {<<k, v>>}
PutAll(m, ks, v) == {kv \in m : kv[1] \notin ks} \cup {<<k, v>> : k \in ks}
IsMap(m) == \A a, b \in m : a[1] = b[1] => a = b
\* a dict given as a sequence of pairs (insertion order explicit); later wins
RECURSIVE SeqToMap(_)
SeqToMap(s) == IF s = <<>> THEN {} ELSE Put(SeqToMap(SubSeq(s, 1, Len(s) - 1)), s[Len(s)][1], s[Len(s)][2])
===========================================================================
