---------------------------- MODULE DeriveProps ---------------------------
(***************************************************************************)
(* Declarative statements of C04, C05, C09, C11, C12 over records (C10 is  *)
(* the frame condition of World.tla).  Each takes the operation's inputs   *)
(* and its result [out, conv] and never looks at how the result was        *)
(* computed.                                                               *)
(***************************************************************************)
EXTENDS Derive

\* C04 -- strict construction from a sequence of records
SharesU(rs) == {t \in (1..Len(rs)) \X (1..Len(rs)) : t[1] < t[2] /\ AllU(rs[t[1]]) \cap AllU(rs[t[2]]) # {}}
SharesP(rs) == {t \in (1..Len(rs)) \X (1..Len(rs)) : t[1] < t[2] /\ AllP(rs[t[1]]) \cap AllP(rs[t[2]]) # {}}
P_C04(rs, r) ==
  /\ (r.out = Ok) <=> (SharesU(rs) = {} /\ SharesP(rs) = {})
  /\ SharesU(rs) # {} =>
        /\ r.out[1] = "raise" /\ r.out[2] = "DuplicateURIPrefixes"
        /\ r.out[3] = UNION {{<<{rs[t[1]], rs[t[2]]}, x>> : x \in AllU(rs[t[1]]) \cap AllU(rs[t[2]])} : t \in SharesU(rs)}
  /\ (SharesU(rs) = {} /\ SharesP(rs) # {}) =>
        /\ r.out[1] = "raise" /\ r.out[2] = "DuplicatePrefixes"
        /\ r.out[3] = UNION {{<<{rs[t[1]], rs[t[2]]}, x>> : x \in AllP(rs[t[1]]) \cap AllP(rs[t[2]])} : t \in SharesP(rs)}
  /\ r.out = Ok =>
        /\ RecSet(r.conv) = SeqToSet(rs)
        /\ OneOwner(r.conv) /\ BimapsInverse(r.conv)
        /\ \A x \in KnownP(r.conv) : Cardinality({q \in RecSet(r.conv) : x \in AllP(q)}) = 1
        /\ \A x \in KnownU(r.conv) : Cardinality({q \in RecSet(r.conv) : x \in AllU(q)}) = 1

\* C05 -- one add_record / add_prefix step from c (which satisfies OneOwner)
P_C05_step(c, ext, cs, mg, r) ==
  LET m == {x \in RecSet(c) : Matches(ext, x, cs)} IN
  IF Cardinality(m) > 1 \/ (Cardinality(m) = 1 /\ ~mg)
  THEN r.out = Raise("valueerror") /\ r.conv = c
  ELSE /\ r.out = Ok
       /\ OneOwner(r.conv) /\ IndexesFresh(r.conv)
       /\ \E g \in RecSet(r.conv) : AllP(ext) \subseteq AllP(g) /\ AllU(ext) \subseteq AllU(g)
       /\ IF m = {} THEN RecSet(r.conv) = RecSet(c) \cup {ext}
          ELSE LET e == CHOOSE e \in m : TRUE IN
               /\ \E g \in RecSet(r.conv) :
                     /\ g.p = e.p /\ g.u = e.u /\ g.pat = e.pat
                     /\ AllP(g) = AllP(e) \cup AllP(ext) /\ AllU(g) = AllU(e) \cup AllU(ext)
                     /\ RecSet(r.conv) = (RecSet(c) \ {e}) \cup {g}
P_C05_inv(c) == OneOwner(c) /\ IndexesFresh(c) /\ BimapsInverse(c)

\* C09 -- chain / get_subconverter
Contained(x, g) == AllP(x) \subseteq AllP(g) /\ AllU(x) \subseteq AllU(g)
CaseClashFree(c) == \A g1, g2 \in RecSet(c) : g1 # g2 =>
    /\ \A a \in AllP(g1), b \in AllP(g2) : CF(a) # CF(b)
    /\ \A a \in AllU(g1), b \in AllU(g2) : CF(a) # CF(b)
P_C09_chain(cseq, cs, r) ==
  r.out = Ok =>
    LET d == r.conv IN
    /\ OneOwner(d) /\ IndexesFresh(d)
    /\ KnownP(d) = UNION {KnownP(cseq[i]) : i \in 1..Len(cseq)}
    /\ KnownU(d) = UNION {KnownU(cseq[i]) : i \in 1..Len(cseq)}
    /\ \A i \in 1..Len(cseq) : \A x \in RecSet(cseq[i]) : \E g \in RecSet(d) : Contained(x, g)
    /\ cs => \A x \in KnownP(cseq[1]) : Get(d.pm, x) = Get(cseq[1].pm, x)
    /\ cs => \A g \in RecSet(d) : \E i \in 1..Len(cseq) : \E x \in RecSet(cseq[i]) : Contained(x, g)
    /\ cs => \A g \in RecSet(d) :
              LET first == CHOOSE i \in 1..Len(cseq) :
                              /\ \E x \in RecSet(cseq[i]) : Contained(x, g)
                              /\ \A j \in 1..(i - 1) : \A x \in RecSet(cseq[j]) : ~Contained(x, g)
                  src == CHOOSE x \in RecSet(cseq[first]) : Contained(x, g)
              IN g.p = src.p /\ g.u = src.u
    /\ (Len(cseq) = 1 /\ (cs \/ CaseClashFree(cseq[1]))) => RecSet(d) = RecSet(cseq[1])
    /\ ~cs => CaseClashFree(d)
P_C09_sub(c, P, r) ==
  /\ r.out = Ok
  /\ LET d == r.conv IN
     /\ RecSet(d) = {x \in RecSet(c) : AllP(x) \cap P # {}}
     /\ OneOwner(d) /\ IndexesFresh(d)
     /\ \A x \in KnownP(d) : Get(d.pm, x) = Get(c.pm, x) /\ Get(d.s2p, x) = Get(c.s2p, x)
     /\ \A x \in KnownU(d) : Get(d.trie, x) = Get(c.trie, x)

\* C11 -- remap_curie_prefixes; m is a sequence of <<old, new>> pairs
SameURISide(x, g) == g.u = x.u /\ g.us = x.us /\ g.pat = x.pat
OnceAsValue(m, v) == Cardinality({i \in 1..Len(m) : m[i][2] = v}) = 1
P_C11(c, m, r) ==
  /\ r.out \in {Ok, Raise("DuplicateKeys"), Raise("DuplicateValues"),
                Raise("InconsistentMapping"), Raise("CycleDetected")}
  /\ r.out = Raise("DuplicateKeys") <=> DuplicateKeys(c, m)
  /\ r.out = Ok =>
     LET d == r.conv IN
     /\ Len(d.recs) = Len(c.recs)
     /\ OneOwner(d) /\ IndexesFresh(d)
     /\ \A x \in RecSet(c) : \E g \in RecSet(d) : SameURISide(x, g)
     /\ KnownP(c) \subseteq KnownP(d)
     /\ KnownP(d) \subseteq KnownP(c) \cup MVals(m)
     \* every old name stays with its record or becomes another record's canonical prefix
     /\ \A x \in RecSet(c) : \A n \in AllP(x) :
           LET g == CHOOSE g \in RecSet(d) : SameURISide(x, g) IN
           n \in AllP(g) \/ (\E h \in RecSet(d) : h.p = n /\ n \in MVals(m))
     \* an applicable pair onto an unused name renames the record
     /\ \A i \in 1..Len(m) :
           (m[i][1] \in KnownP(c) /\ m[i][2] \notin KnownP(c) /\ OnceAsValue(m, m[i][2])) =>
              \E g \in RecSet(d) : SameURISide(OwnerP(c, m[i][1]), g) /\ g.p = m[i][2]
     \* records no applicable pair names are unchanged; so are records whose pair
     \* clashes with a name another record keeps
     /\ \A x \in RecSet(c) :
           (\A i \in 1..Len(m) : m[i][1] \notin AllP(x)) =>
               (x \in RecSet(d) \/ \E i \in 1..Len(m) : m[i][2] \in AllP(x))
     /\ \A x \in RecSet(c) : \A i \in 1..Len(m) :
           (m[i][1] \in AllP(x) /\ m[i][2] \in KnownP(c) \ AllP(x) /\ m[i][2] \notin MKeys(m)
              /\ (\A j \in 1..Len(m) : m[j][2] \notin AllP(x)))
           => x \in RecSet(d)

\* C12 -- remap_uri_prefixes / rewire for injective m
Injective(m) == \A i, j \in 1..Len(m) : m[i][2] = m[j][2] => i = j
SameCurieSide(x, g) == g.p = x.p /\ g.ps = x.ps /\ g.pat = x.pat
P_C12_rec(c, x, g, cand) ==
  /\ SameCurieSide(x, g)
  /\ AllU(x) \subseteq AllU(g)
  /\ AllU(g) \ AllU(x) \subseteq cand
  /\ cand = {} => g = x
  /\ \A new \in cand :
       /\ (new \in KnownU(c) \ AllU(x)) => g = x
       /\ (new \notin KnownU(c) \/ new \in AllU(x)) => g.u = new
P_C12_uri(c, m, r) ==
  /\ (r.out = Raise("TransitiveError")) <=> (MKeys(m) \cap MVals(m) # {})
  /\ (Injective(m) /\ MKeys(m) \cap MVals(m) = {} /\ ~Ambiguous(c, m, TRUE)) =>
       /\ r.out = Ok
       /\ LET d == r.conv IN
          /\ Len(d.recs) = Len(c.recs) /\ OneOwner(d) /\ IndexesFresh(d)
          /\ \A x \in RecSet(c) : \E g \in RecSet(d) : P_C12_rec(c, x, g, CandNewU(x, m))
P_C12_rewire(c, m, r) ==
  (Injective(m) /\ ~Ambiguous(c, m, FALSE)) =>
       /\ r.out = Ok
       /\ LET d == r.conv IN
          /\ Len(d.recs) = Len(c.recs) /\ OneOwner(d) /\ IndexesFresh(d)
          /\ \A x \in RecSet(c) : \E g \in RecSet(d) : P_C12_rec(c, x, g, CandNewP(x, m))
          /\ (MKeys(m) \cap KnownP(c) = {}) => RecSet(d) = RecSet(c)
          /\ RecSet(Rewire(d, m).conv) = RecSet(d)
===========================================================================
