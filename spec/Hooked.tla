------------------------------ MODULE Hooked -------------------------------
(***************************************************************************)
(* Converters with an overridden identifier hook.                          *)
(*                                                                         *)
(* `Converter.standardize_identifier(standard_prefix, identifier)` is the  *)
(* library's documented extension point (api.py:1891): a subclass may      *)
(* rewrite an identifier or reject it (return None).  It is consulted by   *)
(* `parse_curie` only (api.py:1884), AFTER the prefix has been             *)
(* standardised, and through `parse_curie` by expand, expand_all,          *)
(* standardize_curie, is_curie, parse, compress_or_standardize and         *)
(* expand_or_standardize.  The URI side (parse_uri, compress, is_uri,      *)
(* standardize_uri) and the pair methods never consult it.                 *)
(*                                                                         *)
(* The hook is an ENVIRONMENT function: the specification does not know    *)
(* its body.  It is represented by its graph `h`, a finite map             *)
(*     <<canonical prefix, identifier>>  |->  Val(identifier') or None1    *)
(* that is the identity wherever it has no entry (the base class).  In the *)
(* bounded model (mc/MC_Hook.tla) TLC enumerates graphs; in trace          *)
(* validation (TraceHook.tla) the graph is what the recorder OBSERVED the  *)
(* subclass's method answer when it was asked directly, so the operational *)
(* operators below predict every answer of the subclassed converter.       *)
(***************************************************************************)
EXTENDS Props

HookAns(h, p, id) == IF Has(h, <<p, id>>) THEN Get(h, <<p, id>>) ELSE Val(id)

\* parse_curie (api.py:1871-1889): split, standardise the prefix, then the hook
ParseCurieH(c, h, s, strict) ==
  IF ~Contains(s, c.delim) THEN (IF strict THEN Raise("curies") ELSE None1)
  ELSE LET p == PartBefore(s, c.delim)  id == PartAfter(s, c.delim) IN
       IF ~Has(c.s2p, p) THEN (IF strict THEN Raise("curies") ELSE None1)
       ELSE LET np == Get(c.s2p, p)  r == HookAns(h, np, id) IN
            IF IsVal(r) THEN Val(<<np, r[2]>>)
            ELSE IF strict THEN Raise("curies") ELSE None1        \* IdentifierStandardizationError

ExpandH(c, h, s, md) ==
  LET r == ParseCurieH(c, h, s, FALSE) IN
  IF IsVal(r) THEN ExpandRef(c, r[2][1], r[2][2], md) ELSE Tail3(md, s)
ExpandAllH(c, h, s, strict) ==
  LET r == ParseCurieH(c, h, s, FALSE) IN
  IF IsVal(r) THEN ExpandPairAll(c, r[2][1], r[2][2], FALSE)
  ELSE IF strict THEN Raise("curies") ELSE None1
StdCurieH(c, h, s, md) ==
  LET r == ParseCurieH(c, h, s, FALSE) IN
  IF IsVal(r) THEN Val(FormatCurie(c, r[2][1], r[2][2])) ELSE Tail3(md, s)
IsCurieH(c, h, s) == IsVal(ExpandH(c, h, s, Default))
ParseH(c, h, s, strict) ==
  IF IsURI(c, s) THEN ParseURIRaw(c, s)
  ELSE IF IsCurieH(c, h, s) THEN ParseCurieH(c, h, s, strict)
  ELSE IF strict THEN Raise("curies") ELSE None1
CompressOrStdH(c, h, s, md) ==
  LET r == ParseH(c, h, s, FALSE) IN
  IF IsVal(r) THEN Val(FormatCurie(c, r[2][1], r[2][2])) ELSE Tail3(md, s)
ExpandOrStdH(c, h, s, md) ==
  LET r == ParseH(c, h, s, FALSE) IN
  IF IsVal(r) THEN ExpandRef(c, r[2][1], r[2][2], md) ELSE Tail3(md, s)

HookedMethods == {"parse_curie", "expand", "expand_all", "is_curie", "standardize_curie", "parse",
                  "compress_or_standardize", "expand_or_standardize", "expand_strict"}
AnsH(c, h, meth, md, x) ==
  CASE meth = "parse_curie" -> ParseCurieH(c, h, x, md.s)
    [] meth = "expand"      -> ExpandH(c, h, x, md)
    [] meth = "expand_all"  -> ExpandAllH(c, h, x, md.s)
    [] meth = "is_curie"    -> Val(IsCurieH(c, h, x))
    [] meth = "standardize_curie" -> StdCurieH(c, h, x, md)
    [] meth = "parse"       -> ParseH(c, h, x, md.s)
    [] meth = "compress_or_standardize" -> CompressOrStdH(c, h, x, md)
    [] meth = "expand_or_standardize"   -> ExpandOrStdH(c, h, x, md)
    [] meth = "expand_strict" -> ExpandH(c, h, x, Mode(TRUE, FALSE, TRUE))
    [] OTHER -> Ans(c, meth, md, x)                     \* the hook is not consulted

---------------------------------------------------------------------------
(* C07 for hooked converters, DECLARATIVELY over the records and the graph  *)
(* of the hook: every derived operation is what the two primitive parsers   *)
(* say, and parse_curie is "owner of the prefix, then the hook".            *)
P_C07H(c, h, s, A(_, _, _)) ==
  LET pu == A("parse_uri", Default, s)  pc == A("parse_curie", Default, s)  pa == A("parse", Default, s)
      isuri == A("is_uri", Default, s) = Val(TRUE)
      iscurie == A("is_curie", Default, s) = Val(TRUE)
      split == Contains(s, c.delim)
      p == IF split THEN PartBefore(s, c.delim) ELSE <<0>>
      id == IF split THEN PartAfter(s, c.delim) ELSE <<0>>
      known == split /\ p \in KnownP(c)
      hk == IF known THEN HookAns(h, OwnerP(c, p).p, id) ELSE None1 IN
  /\ A("is_uri", Default, s)[1] = "val" /\ A("is_curie", Default, s)[1] = "val"
  /\ isuri <=> IsVal(A("compress", Default, s))
  /\ isuri <=> IsVal(pu)
  \* the primitive CURIE parser: the owner's canonical prefix and the hook's identifier, or nothing
  /\ pc = (IF known /\ IsVal(hk) THEN Val(<<OwnerP(c, p).p, hk[2]>>) ELSE None1)
  /\ iscurie <=> IsVal(pc)
  /\ iscurie <=> IsVal(A("expand", Default, s))
  /\ A("expand", Default, s) = (IF IsVal(pc) THEN Val(OwnerP(c, p).u \o pc[2][2]) ELSE None1)
  /\ A("standardize_curie", Default, s) = (IF IsVal(pc) THEN Val(pc[2][1] \o c.delim \o pc[2][2]) ELSE None1)
  /\ pa = (IF isuri THEN pu ELSE IF iscurie THEN pc ELSE None1)
  /\ A("compress_or_standardize", Default, s) = (IF IsVal(pa) THEN Val(pa[2][1] \o c.delim \o pa[2][2]) ELSE None1)
  /\ A("expand_or_standardize", Default, s) =
        (IF IsVal(pa) /\ pa[2][1] \in KnownP(c) THEN Val(OwnerP(c, pa[2][1]).u \o pa[2][2]) ELSE None1)
  /\ A("compress_strict", Default, s) = A("compress", Strict, s)
  /\ A("expand_strict", Default, s) = A("expand", Strict, s)
  \* strict mode reports the same failures by raising (C08's reading, for the hooked parser)
  /\ A("parse_curie", Strict, s) = (IF IsVal(pc) THEN pc ELSE Raise("curies"))
  /\ A("expand", Strict, s) = (IF IsVal(pc) THEN A("expand", Default, s) ELSE Raise("curies"))

\* the base class is the identity hook: the hooked operators specialise to Conv's
NoHook == {}
SameAsBase(c, s) ==
  \A m \in HookedMethods : \A md \in {Default, Strict, Pass, Both} : AnsH(c, NoHook, m, md, s) = Ans(c, m, md, s)
=============================================================================
