----------------------------- MODULE RepointRel -----------------------------
(***************************************************************************)
(* remap_uri_prefixes / rewire per record, over record SETS and            *)
(* uninterpreted strings: the formulation about which                      *)
(* tlaps/C12_Repoint.tla PROVES C12 for converters of any size.  TLC       *)
(* checks (mc/MC_Derive.tla, Prop_BridgeRepoint) that the operational      *)
(* Derive!RemapURI / Derive!Rewire compute exactly this.                   *)
(* known = the URI prefixes of the INPUT converter; m = the mapping as a   *)
(* set of <<key, new URI prefix>> pairs; uri = TRUE for remap_uri_prefixes *)
(* (keys are URI prefixes), FALSE for rewire (keys are CURIE prefixes).    *)
(***************************************************************************)
AllP4(r) == {r.p} \cup r.ps
AllU4(r) == {r.u} \cup r.us
KeysOf(m) == {kv[1] : kv \in m}
\* the new URI prefixes a record is offered: through its canonical value if that is a key, else through a synonym
CandR(m, uri, r) ==
  IF uri THEN (IF r.u \in KeysOf(m) THEN {kv[2] : kv \in {x \in m : x[1] = r.u}} ELSE {kv[2] : kv \in {x \in m : x[1] \in r.us}})
  ELSE (IF r.p \in KeysOf(m) THEN {kv[2] : kv \in {x \in m : x[1] = r.p}} ELSE {kv[2] : kv \in {x \in m : x[1] \in r.ps}})
Repoint4(r, new) == [p |-> r.p, u |-> new, ps |-> r.ps, us |-> (r.us \cup {r.u}) \ {new}]
UpdR(known, m, uri, r) ==
  IF CandR(m, uri, r) = {} THEN r
  ELSE LET new == CHOOSE x \in CandR(m, uri, r) : TRUE IN
       IF ~uri /\ new = r.u THEN r                              \* rewire to the current canonical URI prefix: nothing to do
       ELSE IF new \in known /\ new \notin r.us THEN r          \* held by another record: clash, left untouched
       ELSE Repoint4(r, new)                                    \* unused, or an own synonym: becomes canonical
=============================================================================
