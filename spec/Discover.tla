------------------------------ MODULE Discover ------------------------------
(***************************************************************************)
(* curies.discovery.discover (discovery.py:138-268).                       *)
(* Operational: per URI, the first delimiter (priority order) whose        *)
(* right-most split leaves a non-empty alphanumeric tail gives             *)
(* <<prefix incl. delimiter, tail>>; URIs the supplied converter           *)
(* recognises are skipped, and so are GitHub issue URIs (a special case    *)
(* of the code, named here as the deviation it is: GithubIssueSkip).       *)
(***************************************************************************)
EXTENDS DeriveProps
CONSTANTS Alnum,            \* characters c with c.isalnum()
          DefaultDelims,    \* <<"#", "/", "_">>
          GithubHead, IssuesWord

IsAlnumStr(s) == s # <<>> /\ \A i \in 1..Len(s) : s[i] \in Alnum
GithubIssueSkip(u) == IsPfx(GithubHead, u) /\ Contains(u, IssuesWord)
NoConv == <<>>                    \* converter argument: <<>> or <<c>>

\* the split of one URI: <<>> (nothing learnt) or <<uri_prefix, luid>>
RECURSIVE SplitBy(_, _)
SplitBy(u, ds) == IF ds = <<>> THEN <<>>
                  ELSE IF Contains(u, ds[1]) /\ IsAlnumStr(RPartAfter(u, ds[1]))
                       THEN <<RPartBefore(u, ds[1]) \o ds[1], RPartAfter(u, ds[1])>>
                       ELSE SplitBy(u, Tail(ds))
Learnt(u, ds, conv) ==
  IF conv # <<>> /\ IsURI(conv[1], u) THEN <<>>
  ELSE IF GithubIssueSkip(u) THEN <<>>
  ELSE SplitBy(u, ds)
EffDelims(ds) == IF ds = <<>> THEN DefaultDelims ELSE ds        \* `if not delimiters`
\* uri prefix -> set of luids, as a set of pairs
Pairs(uris, ds, conv) == {Learnt(u, EffDelims(ds), conv) : u \in uris} \ {<<>>}
LuidsOf(ps, up) == {p[2] : p \in {q \in ps : q[1] = up}}

\* decimal rendering of a positive integer (str(i))
RECURSIVE Dec(_)
Dec(n) == IF n < 10 THEN <<48 + n>> ELSE Dec(n \div 10) \o <<48 + (n % 10)>>

\* cutoff: <<>> = None, <<k>> = k
DiscoverRecs(uriseq, ds, cutoff, meta, conv) ==
  LET ps == Pairs(SeqToSet(uriseq), ds, conv)
      ups == SortStrings({up \in {p[1] : p \in ps} : cutoff = <<>> \/ Cardinality(LuidsOf(ps, up)) >= cutoff[1]})
  IN [i \in 1..Len(ups) |-> Rec(meta \o Dec(i), ups[i], {}, {}, NoPat)]
Discover(uriseq, ds, cutoff, meta, conv) == Construct(DiscoverRecs(uriseq, ds, cutoff, meta, conv), DefaultDelim, TRUE)

---------------------------------------------------------------------------
\* C19, declaratively, about a result r = [out, conv] for the given arguments
HasAlnumTail(u, ds) == \E k \in 1..Len(ds) : Contains(u, ds[k]) /\ IsAlnumStr(RPartAfter(u, ds[k]))
P_C19(uriseq, ds0, cutoff, meta, conv, r) ==
  LET ds == EffDelims(ds0)  uris == SeqToSet(uriseq)  d == r.conv IN
  /\ r.out = Ok
  /\ OneOwner(d) /\ IndexesFresh(d)                                    \* a valid strict converter
  /\ \A x \in RecSet(d) : x.ps = {} /\ x.us = {}
  /\ \A x \in RecSet(d) : \E k \in 1..Len(ds) : Len(x.u) >= Len(ds[k]) /\ Drop(x.u, Len(x.u) - Len(ds[k])) = ds[k]
  \* numbering: metaprefix1..n in sorted URI-prefix order
  /\ LET sorted == SortStrings({x.u : x \in RecSet(d)}) IN
       \A i \in 1..Len(sorted) : \E x \in RecSet(d) : x.u = sorted[i] /\ x.p = meta \o Dec(i)
  \* kept iff at least `cutoff` distinct identifiers were seen for it
  /\ LET ps == Pairs(uris, ds0, conv) IN
       \A up \in {p[1] : p \in ps} :
          (up \in KnownU(d)) <=> (cutoff = <<>> \/ Cardinality(LuidsOf(ps, up)) >= cutoff[1])
  \* with no cutoff and no converter every input with an alphanumeric tail round-trips
  /\ (cutoff = <<>> /\ conv = <<>> /\ ~Contains(meta, DefaultDelim)) =>
       \A u \in uris : (HasAlnumTail(u, ds) /\ ~GithubIssueSkip(u)) =>
          LET cu == Compress(d, u, Default) IN IsVal(cu) /\ Expand(d, cu[2], Default) = Val(u)
  \* URIs a supplied converter recognises contribute nothing
  /\ conv # <<>> =>
       KnownU(d) = KnownU(Discover(SelectSeq(uriseq, LAMBDA u : ~IsURI(conv[1], u)), ds0, cutoff, meta, <<>>).conv)
\* the clause of C19 the GitHub special case contradicts (reported as a known finding)
P_C19_github(uriseq, ds0, cutoff, meta, conv, r) ==
  (cutoff = <<>> /\ conv = <<>> /\ ~Contains(meta, DefaultDelim)) =>
     \A u \in SeqToSet(uriseq) : (HasAlnumTail(u, EffDelims(ds0)) /\ GithubIssueSkip(u)) =>
        LET cu == Compress(r.conv, u, Default) IN IsVal(cu) /\ Expand(r.conv, cu[2], Default) = Val(u)
=============================================================================
