------------------------------ MODULE Ind_C09 ------------------------------
(***************************************************************************)
(* Inductive check of C09's chain with Apalache (symbolic; strings are     *)
(* UNBOUNDED integers, case folding is x \div 2).                          *)
(*                                                                         *)
(* chain(c1..cn) is a fold of add_record(merge=True) over the inputs'      *)
(* records in order (Derive.tla: ChainRecs).  One step of that fold is     *)
(* modelled here: `acc` is the converter built so far, `seen` the input    *)
(* records consumed so far, `ext` the next input record.  Checked:         *)
(*      IndInv /\ Step  =>  IndInv'                                        *)
(* for every accumulated converter of <= 3 records with <= 2 synonyms per  *)
(* side (Gen bounds), every next record, both case modes, where IndInv =   *)
(*   - one owner per CURIE prefix and per URI prefix (C04/C05),            *)
(*   - nothing lost, nothing invented: the prefixes known to `acc` are     *)
(*     exactly those of the records seen,                                  *)
(*   - what shared a record in an input shares a record of `acc`,          *)
(*   - case sensitive: the canonical pair of every record of `acc` is the  *)
(*     canonical pair of a seen record contained in it,                    *)
(*   - case insensitive: no two records hold prefixes equal up to case,    *)
(*   - earlier choices win: a step never changes the canonical pair of a   *)
(*     record already there (`prev`).                                      *)
(* A step that bridges two records raises and changes nothing.             *)
(* Run: apalache-mc check --init=IndInit --inv=IndInv --length=1 Ind_C09.tla *)
(***************************************************************************)
EXTENDS Integers, FiniteSets, Apalache

VARIABLES
  \* @type: Set({p: Int, u: Int, ps: Set(Int), us: Set(Int)});
  acc,
  \* @type: Set({p: Int, u: Int, ps: Set(Int), us: Set(Int)});
  prev,
  \* @type: Set({p: Int, u: Int, ps: Set(Int), us: Set(Int)});
  seen,
  \* @type: {p: Int, u: Int, ps: Set(Int), us: Set(Int)};
  ext,
  \* @type: Bool;
  cs,
  \* @type: Bool;
  raised

\* @type: (Int) => Int;
Fold(x) == x \div 2
\* @type: ({p: Int, u: Int, ps: Set(Int), us: Set(Int)}) => Set(Int);
AllP(r) == {r.p} \union r.ps
\* @type: ({p: Int, u: Int, ps: Set(Int), us: Set(Int)}) => Set(Int);
AllU(r) == {r.u} \union r.us
\* @type: ({p: Int, u: Int, ps: Set(Int), us: Set(Int)}) => Bool;
ValidRec(r) == r.p \notin r.ps /\ r.u \notin r.us
\* @type: (Int, Int, Bool) => Bool;
EqCS(a, b, c) == IF c THEN a = b ELSE Fold(a) = Fold(b)
\* @type: ({p: Int, u: Int, ps: Set(Int), us: Set(Int)}, {p: Int, u: Int, ps: Set(Int), us: Set(Int)}, Bool) => Bool;
Matches(e, r, c) ==
  \/ \E a \in AllP(e) : \E b \in AllP(r) : EqCS(a, b, c)
  \/ \E a \in AllU(e) : \E b \in AllU(r) : EqCS(a, b, c)
\* @type: ({p: Int, u: Int, ps: Set(Int), us: Set(Int)}, {p: Int, u: Int, ps: Set(Int), us: Set(Int)}) => Bool;
Contained(x, g) == AllP(x) \subseteq AllP(g) /\ AllU(x) \subseteq AllU(g)

\* @type: (Set({p: Int, u: Int, ps: Set(Int), us: Set(Int)})) => Bool;
OneOwner(rs) ==
  /\ \A r \in rs : ValidRec(r)
  /\ \A r1 \in rs : \A r2 \in rs :
        r1 # r2 => (AllP(r1) \intersect AllP(r2) = {} /\ AllU(r1) \intersect AllU(r2) = {})
\* @type: (Set({p: Int, u: Int, ps: Set(Int), us: Set(Int)})) => Bool;
CaseClashFree(rs) ==
  \A r1 \in rs : \A r2 \in rs : r1 # r2 =>
     /\ \A a \in AllP(r1) : \A b \in AllP(r2) : Fold(a) # Fold(b)
     /\ \A a \in AllU(r1) : \A b \in AllU(r2) : Fold(a) # Fold(b)
\* @type: (Set({p: Int, u: Int, ps: Set(Int), us: Set(Int)})) => Set(Int);
KnownP(rs) == UNION {AllP(r) : r \in rs}
\* @type: (Set({p: Int, u: Int, ps: Set(Int), us: Set(Int)})) => Set(Int);
KnownU(rs) == UNION {AllU(r) : r \in rs}

IndInv ==
  /\ OneOwner(acc) /\ ValidRec(ext) /\ \A x \in seen : ValidRec(x)
  /\ KnownP(acc) = KnownP(seen) /\ KnownU(acc) = KnownU(seen)                       \* nothing lost, nothing invented
  /\ \A x \in seen : \E g \in acc : Contained(x, g)                                   \* kept together
  /\ cs => \A g \in acc : \E x \in seen : x.p = g.p /\ x.u = g.u /\ Contained(x, g)    \* canonical pairs come from inputs
  /\ ~cs => CaseClashFree(acc)
  /\ \A g \in prev : \E h \in acc : h.p = g.p /\ h.u = g.u /\ Contained(g, h)          \* earlier choices win

IndInit ==
  /\ acc = Gen(3) /\ seen = Gen(3) /\ ext = Gen(2)
  /\ prev = acc /\ raised = FALSE
  /\ cs \in BOOLEAN
  /\ \A r \in acc : Cardinality(r.ps) <= 2 /\ Cardinality(r.us) <= 2
  /\ \A r \in seen : Cardinality(r.ps) <= 2 /\ Cardinality(r.us) <= 2
  /\ IndInv

\* one step of chain: add_record(ext, case_sensitive=cs, merge=True)
Next ==
  LET m == {r \in acc : Matches(ext, r, cs)} IN
  /\ UNCHANGED <<ext, cs>>
  /\ prev' = acc
  /\ IF \E a \in m : \E b \in m : a # b
     THEN raised' = TRUE /\ UNCHANGED <<acc, seen>>                                   \* bridges two records: ValueError
     ELSE /\ raised' = FALSE
          /\ seen' = seen \union {ext}
          /\ IF m # {}
             THEN \E r \in m :
                    acc' = (acc \ {r}) \union
                           {[p |-> r.p, u |-> r.u, ps |-> r.ps \union (AllP(ext) \ AllP(r)), us |-> r.us \union (AllU(ext) \ AllU(r))]}
             ELSE acc' = acc \union {ext}
\* non-vacuity witnesses: each must be VIOLATED within one step
NeverMerged == \A g \in acc : \E h \in prev : h = g \/ g = ext
NeverRaised == ~raised
NeverCaseMerge == cs \/ (\A g \in acc : \E h \in prev : h = g \/ g = ext)
=============================================================================
