------------------------------ MODULE Ind_C05 ------------------------------
(***************************************************************************)
(* Inductive check of C05's core with Apalache (symbolic, strings are      *)
(* UNBOUNDED integers; case folding is x \div 2, i.e. 2k and 2k+1 are the  *)
(* two spellings of one case-folded string):                               *)
(*     IndInv /\ AddRecord(ext, cs, mg)  =>  IndInv'                       *)
(* for every converter of <= 3 records with <= 2 synonyms per side (the    *)
(* Gen bounds), every record to add and all four flag combinations, where  *)
(* IndInv = every record valid /\ one owner per CURIE prefix and per URI   *)
(* prefix /\ the four lookup structures are exactly what the records       *)
(* denote.  This complements the explicit-state models of TLC, whose       *)
(* string pools are tiny; it is the same AddRecord as Conv.tla with        *)
(* records as a set.                                                       *)
(* Run: apalache-mc check --init=IndInit --inv=IndInv --length=1 Ind_C05.tla *)
(***************************************************************************)
EXTENDS Integers, FiniteSets, Apalache

VARIABLES
  \* @type: Set({p: Int, u: Int, ps: Set(Int), us: Set(Int)});
  recs,
  \* @type: Set(<<Int, Int>>);
  pm,
  \* @type: Set(<<Int, Int>>);
  s2p,
  \* @type: Set(<<Int, Int>>);
  rpm,
  \* @type: Set(<<Int, Int>>);
  trie,
  \* @type: {p: Int, u: Int, ps: Set(Int), us: Set(Int)};
  ext,
  \* @type: Bool;
  cs,
  \* @type: Bool;
  mg

\* @type: (Int) => Int;
Fold(x) == x \div 2
\* @type: ({p: Int, u: Int, ps: Set(Int), us: Set(Int)}) => Set(Int);
AllP(r) == {r.p} \union r.ps
\* @type: ({p: Int, u: Int, ps: Set(Int), us: Set(Int)}) => Set(Int);
AllU(r) == {r.u} \union r.us
\* @type: ({p: Int, u: Int, ps: Set(Int), us: Set(Int)}) => Bool;
ValidRec(r) == r.p \notin r.ps /\ r.u \notin r.us

\* @type: (Int, Int, Bool) => Bool;
EqCS(a, b, c) == IF c THEN a = b ELSE Fold(a) = Fold(b)
\* @type: ({p: Int, u: Int, ps: Set(Int), us: Set(Int)}, {p: Int, u: Int, ps: Set(Int), us: Set(Int)}, Bool) => Bool;
Matches(e, r, c) ==
  \/ \E a \in AllP(e) : \E b \in AllP(r) : EqCS(a, b, c)
  \/ \E a \in AllU(e) : \E b \in AllU(r) : EqCS(a, b, c)

\* @type: (Set(<<Int, Int>>), Set(Int), Int) => Set(<<Int, Int>>);
PutAll(m, ks, v) == {kv \in m : kv[1] \notin ks} \union {<<k, v>> : k \in ks}

\* what the records denote
\* @type: (Set({p: Int, u: Int, ps: Set(Int), us: Set(Int)})) => Set(<<Int, Int>>);
PMOf(rs) == UNION {{<<x, r.u>> : x \in AllP(r)} : r \in rs}
\* @type: (Set({p: Int, u: Int, ps: Set(Int), us: Set(Int)})) => Set(<<Int, Int>>);
S2POf(rs) == UNION {{<<x, r.p>> : x \in AllP(r)} : r \in rs}
\* @type: (Set({p: Int, u: Int, ps: Set(Int), us: Set(Int)})) => Set(<<Int, Int>>);
RPMOf(rs) == UNION {{<<x, r.p>> : x \in AllU(r)} : r \in rs}

OneOwner ==
  /\ \A r \in recs : ValidRec(r)
  /\ \A r1 \in recs : \A r2 \in recs :
        r1 # r2 => (AllP(r1) \intersect AllP(r2) = {} /\ AllU(r1) \intersect AllU(r2) = {})
IndexesFresh == pm = PMOf(recs) /\ s2p = S2POf(recs) /\ rpm = RPMOf(recs) /\ trie = RPMOf(recs)
IndInv == OneOwner /\ IndexesFresh /\ ValidRec(ext)

\* arbitrary state of bounded size satisfying the invariant
IndInit ==
  /\ recs = Gen(3)
  /\ ext = Gen(2)
  /\ cs \in BOOLEAN /\ mg \in BOOLEAN
  /\ pm = PMOf(recs) /\ s2p = S2POf(recs) /\ rpm = RPMOf(recs) /\ trie = RPMOf(recs)
  /\ \A r \in recs : Cardinality(r.ps) <= 2 /\ Cardinality(r.us) <= 2
  /\ OneOwner /\ ValidRec(ext)

\* Converter.add_record (api.py:920-965), as in Conv.tla
Next ==
  LET m == {r \in recs : Matches(ext, r, cs)} IN
  /\ UNCHANGED <<ext, cs, mg>>
  /\ IF (\E a \in m : \E b \in m : a # b) \/ (m # {} /\ ~mg)
     THEN UNCHANGED <<recs, pm, s2p, rpm, trie>>                       \* rejected: nothing changes
     ELSE IF m # {}
     THEN \E r \in m :
            LET nr == [p |-> r.p, u |-> r.u, ps |-> r.ps \union (AllP(ext) \ AllP(r)), us |-> r.us \union (AllU(ext) \ AllU(r))] IN
            /\ recs' = (recs \ {r}) \union {nr}
            /\ pm' = PutAll(pm, AllP(nr), nr.u) /\ s2p' = PutAll(s2p, AllP(nr), nr.p)
            /\ rpm' = PutAll(rpm, AllU(nr), nr.p) /\ trie' = PutAll(trie, AllU(nr), nr.p)
     ELSE /\ recs' = recs \union {ext}
          /\ pm' = PutAll(pm, AllP(ext), ext.u) /\ s2p' = PutAll(s2p, AllP(ext), ext.p)
          /\ rpm' = PutAll(rpm, AllU(ext), ext.p) /\ trie' = PutAll(trie, AllU(ext), ext.p)
\* non-vacuity witnesses: each of these must be VIOLATED (checked by the harness)
NoThreeRecords == Cardinality(recs) < 3
NeverMerged == ~(\E r \in recs : ext.p \in AllP(r)) \/ ~mg
=============================================================================
