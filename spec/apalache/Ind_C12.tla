------------------------------ MODULE Ind_C12 ------------------------------
(***************************************************************************)
(* Symbolic check of C12 with Apalache: remap_uri_prefixes (Uri = TRUE)    *)
(* and rewire (Uri = FALSE) on EVERY strict converter of <= 3 records with *)
(* <= 2 synonyms per side and EVERY injective, non-ambiguous mapping of    *)
(* <= 2 pairs, strings being UNBOUNDED integers.  One step computes the    *)
(* result exactly as Derive.tla does (per record: first matching key,      *)
(* clash test against the input's URI prefixes, re-pointing); the          *)
(* invariant is the declarative statement.  TLC checks the same on tiny    *)
(* string pools; here the pools are unbounded and only the sizes bounded.  *)
(* Run: apalache-mc check --init=Init --inv=Inv --length=1 Ind_C12.tla     *)
(***************************************************************************)
EXTENDS Integers, FiniteSets, Apalache

VARIABLES
  \* @type: Set({p: Int, u: Int, ps: Set(Int), us: Set(Int)});
  recs0,
  \* @type: Set(<<Int, Int>>);
  m,
  \* @type: Bool;
  uri,
  \* @type: Set(<<{p: Int, u: Int, ps: Set(Int), us: Set(Int)}, {p: Int, u: Int, ps: Set(Int), us: Set(Int)}>>);
  result,
  \* @type: Bool;
  done

\* @type: ({p: Int, u: Int, ps: Set(Int), us: Set(Int)}) => Set(Int);
AllP(r) == {r.p} \union r.ps
\* @type: ({p: Int, u: Int, ps: Set(Int), us: Set(Int)}) => Set(Int);
AllU(r) == {r.u} \union r.us
Keys == {kv[1] : kv \in m}
KnownU0 == UNION {AllU(r) : r \in recs0}
KnownP0 == UNION {AllP(r) : r \in recs0}

\* the new URI prefixes a record is offered: by its canonical value if that is a key, else by a synonym that is a key
\* @type: ({p: Int, u: Int, ps: Set(Int), us: Set(Int)}) => Set(Int);
Cand(r) ==
  IF uri THEN (IF r.u \in Keys THEN {kv[2] : kv \in {x \in m : x[1] = r.u}} ELSE {kv[2] : kv \in {x \in m : x[1] \in r.us}})
  ELSE (IF r.p \in Keys THEN {kv[2] : kv \in {x \in m : x[1] = r.p}} ELSE {kv[2] : kv \in {x \in m : x[1] \in r.ps}})

\* the operation, per record (Derive.tla: RemapURIRec / RewireRec)
\* @type: ({p: Int, u: Int, ps: Set(Int), us: Set(Int)}, Int) => {p: Int, u: Int, ps: Set(Int), us: Set(Int)};
Repoint(r, new) == [p |-> r.p, u |-> new, ps |-> r.ps, us |-> (r.us \union {r.u}) \ {new}]
\* @type: ({p: Int, u: Int, ps: Set(Int), us: Set(Int)}) => {p: Int, u: Int, ps: Set(Int), us: Set(Int)};
Upd(r) ==
  IF Cand(r) = {} THEN r
  ELSE LET new == CHOOSE x \in Cand(r) : TRUE IN
       IF ~uri /\ new = r.u THEN r
       ELSE IF new \in KnownU0 /\ new \notin r.us THEN r
       ELSE Repoint(r, new)

StrictInput ==
  /\ \A r \in recs0 : r.p \notin r.ps /\ r.u \notin r.us /\ Cardinality(r.ps) <= 2 /\ Cardinality(r.us) <= 2
  /\ \A r1 \in recs0 : \A r2 \in recs0 : r1 # r2 => (AllP(r1) \intersect AllP(r2) = {} /\ AllU(r1) \intersect AllU(r2) = {})
GoodMap ==
  /\ \A a \in m : \A b \in m : (a[1] = b[1] \/ a[2] = b[2]) => a = b                 \* a function, injective
  /\ uri => Keys \intersect {kv[2] : kv \in m} = {}                               \* else remap_uri_prefixes raises TransitiveError
  /\ \A r \in recs0 : Cardinality(Cand(r)) <= 1                                     \* not ambiguous

Init ==
  /\ recs0 = Gen(3) /\ m = Gen(2) /\ uri \in BOOLEAN
  /\ StrictInput /\ GoodMap
  /\ result = {} /\ done = FALSE
Next ==
  /\ ~done /\ done' = TRUE
  /\ result' = {<<r, Upd(r)>> : r \in recs0}
  /\ UNCHANGED <<recs0, m, uri>>

\* C12, declaratively, on <<input record, output record>> pairs
Inv ==
  done =>
    /\ \A t \in result :
         LET x == t[1]  g == t[2] IN
         /\ g.p = x.p /\ g.ps = x.ps                                               \* CURIE side identical
         /\ AllU(x) \subseteq AllU(g)                                              \* keeps every URI prefix it had
         /\ AllU(g) \ AllU(x) \subseteq Cand(x)                                    \* gains at most the mapped new one
         /\ Cand(x) = {} => g = x
         /\ \A new \in Cand(x) :
              /\ (new \in KnownU0 \ AllU(x)) => g = x                              \* owned by another record: untouched
              /\ (new \notin KnownU0 \/ new \in AllU(x)) => g.u = new              \* unused or own synonym: canonical
    \* the result is a strict converter again
    /\ \A t1 \in result : \A t2 \in result :
         t1[1] # t2[1] => (AllU(t1[2]) \intersect AllU(t2[2]) = {} /\ AllP(t1[2]) \intersect AllP(t2[2]) = {})
    /\ \A t \in result : t[2].u \notin t[2].us
    \* rewiring unknown CURIE prefixes changes nothing
    /\ (~uri /\ Keys \intersect KnownP0 = {}) => \A t \in result : t[2] = t[1]
\* non-vacuity witnesses (must be VIOLATED)
NeverRepointed == done => \A t \in result : t[2] = t[1]
NeverClash == done => \A t \in result : \A new \in Cand(t[1]) : new \notin KnownU0 \ AllU(t[1])
=============================================================================
