------------------------------ MODULE Derive ------------------------------
(***************************************************************************)
(* Operations that derive a new converter from existing ones:              *)
(*   chain, get_subconverter            (api.py:2404-2534)                 *)
(*   remap_curie_prefixes, remap_uri_prefixes, rewire (reconciliation.py)  *)
(* Converters are values: the inputs are untouched by construction, which  *)
(* is the repaired behaviour (DESIGN F3: records are copied at the         *)
(* derivation boundary).  remap_curie_prefixes is specified with the       *)
(* repaired transitive branch (DESIGN F4).                                 *)
(***************************************************************************)
EXTENDS Props
CONSTANT DefaultDelim        \* ":" -- what Converter(...) uses when no delimiter is given

---------------------------------------------------------------------------
\* chain: fold of add_record(merge=True) over all records, in order
RECURSIVE ChainRecs(_, _, _)
ChainRecs(rv, rs, cs) ==
  IF rs = <<>> THEN [out |-> Ok, conv |-> rv]
  ELSE LET r == AddRecord(rv, rs[1], cs, TRUE) IN
       IF r.out # Ok THEN [out |-> r.out, conv |-> rv]
       ELSE ChainRecs(r.conv, Tail(rs), cs)
\* coverage signature of a chain: every kind of match met while folding
RECURSIVE ChainKinds(_, _, _)
ChainKinds(rv, rs, cs) ==
  IF rs = <<>> THEN {}
  ELSE LET r == AddRecord(rv, rs[1], cs, TRUE) IN
       MatchKinds(rv, rs[1], cs) \cup (IF r.out # Ok THEN {"bridge"} ELSE ChainKinds(r.conv, Tail(rs), cs))
RECURSIVE ConcatRecs(_)
ConcatRecs(cseq) == IF cseq = <<>> THEN <<>> ELSE cseq[1].recs \o ConcatRecs(Tail(cseq))
Chain(cseq, cs) ==
  IF cseq = <<>> THEN [out |-> Raise("valueerror"), conv |-> EmptyConv(DefaultDelim)]
  ELSE ChainRecs(EmptyConv(DefaultDelim), ConcatRecs(cseq), cs)

\* get_subconverter: records with any prefix in P, default delimiter
Subconverter(c, P) ==
  Construct(SelectSeq(c.recs, LAMBDA r : AllP(r) \cap P # {}), DefaultDelim, TRUE)

---------------------------------------------------------------------------
\* remap_curie_prefixes.  A remapping is a SEQUENCE of <<old, new>> pairs with
\* distinct keys (a dict in insertion order).
MKeys(m) == {m[i][1] : i \in 1..Len(m)}
MVals(m) == {m[i][2] : i \in 1..Len(m)}
MGet(m, k) == (CHOOSE i \in 1..Len(m) : m[i][1] = k)
StdOpt(c, x) == IF Has(c.s2p, x) THEN <<Get(c.s2p, x)>> ELSE <<>>      \* <<>> = None

\* _order_curie_remapping: three validation passes ...
DuplicateKeys(c, m) == \E i, j \in 1..Len(m) :
   i # j /\ StdOpt(c, m[i][1]) # <<>> /\ StdOpt(c, m[i][1]) = StdOpt(c, m[j][1])
DuplicateValues(c, m) == \E i, j \in 1..Len(m) :
   i # j /\ StdOpt(c, m[i][2]) # <<>> /\ StdOpt(c, m[i][2]) = StdOpt(c, m[j][2])
Correspondence(c, m, n) ==
   {m[i][1] : i \in {i \in 1..Len(m) : StdOpt(c, m[i][1]) = <<n>>}}
   \cup {m[i][2] : i \in {i \in 1..Len(m) : StdOpt(c, m[i][2]) = <<n>> /\ StdOpt(c, m[i][1]) # StdOpt(c, m[i][2])}}
Inconsistent(c, m) == \E r \in RecSet(c) : Cardinality(Correspondence(c, m, r.p)) > 1
\* ... then the ordering: sorted(items) or topological peeling
PairLT(x, y) == LexLT(x[1], y[1]) \/ (x[1] = y[1] /\ LexLT(x[2], y[2]))
RECURSIVE SortPairs(_)
SortPairs(S) == IF S = {} THEN <<>>
                ELSE LET mn == CHOOSE x \in S : \A y \in S : x = y \/ PairLT(x, y)
                     IN <<mn>> \o SortPairs(S \ {mn})
RECURSIVE Peel(_)            \* <<acyclic?, ordered pairs>>
Peel(ps) == IF ps = {} THEN <<TRUE, <<>>>>
            ELSE LET noout == {x[2] : x \in ps} \ {x[1] : x \in ps} IN
                 IF noout = {} THEN <<FALSE, <<>>>>
                 ELSE LET edges == {x \in ps : x[2] \in noout}
                          rest  == Peel(ps \ edges)
                      IN <<rest[1], SortPairs(edges) \o rest[2]>>
OrderRemapping(c, m) ==
  IF DuplicateKeys(c, m) THEN [err |-> "DuplicateKeys", seq |-> <<>>]
  ELSE IF DuplicateValues(c, m) THEN [err |-> "DuplicateValues", seq |-> <<>>]
  ELSE IF Inconsistent(c, m) THEN [err |-> "InconsistentMapping", seq |-> <<>>]
  ELSE IF MKeys(m) \cap MVals(m) = {} THEN [err |-> "", seq |-> SortPairs(SeqToSet(m))]
  ELSE LET p == Peel(SeqToSet(m)) IN
       IF p[1] THEN [err |-> "", seq |-> p[2]] ELSE [err |-> "CycleDetected", seq |-> <<>>]

\* main loop (reconciliation.py:52-85), on copies `live` of the records; the
\* position of a record in `live` is its position in c.recs.
FirstOwner(live, x) == LET o == {j \in 1..Len(live) : x \in AllP(live[j])} IN
                       IF o = {} THEN 0 ELSE CHOOSE j \in o : \A k \in o : j <= k
\* 0 when the index names a canonical prefix no record has (only possible in an inconsistent
\* converter; the code would raise KeyError there)
IdxOfCanon(c, p) == IF \E i \in 1..Len(c.recs) : c.recs[i].p = p
                    THEN CHOOSE i \in 1..Len(c.recs) : c.recs[i].p = p ELSE 0
\* `old` will be handed to another record: some applicable pair maps onto it
Taken(c, m, old) == \E i \in 1..Len(m) : m[i][2] = old /\ Has(c.s2p, m[i][1])
\* returns [live, br]: the rewritten records and the branch taken for every ordered pair
\* (the branch names are the coverage signature used to select behaviours for replay)
RECURSIVE RemapLoop2(_, _, _, _, _)
RemapLoop2(c, m, live, seq, br) ==
  IF seq = <<>> THEN [live |-> live, br |-> br]
  ELSE LET old == seq[1][1]  new == seq[1][2] IN
       IF ~Has(c.s2p, old) THEN RemapLoop2(c, m, live, Tail(seq), Append(br, "unknown"))            \* unknown: skip
       ELSE IF IdxOfCanon(c, Get(c.s2p, old)) = 0 THEN RemapLoop2(c, m, live, Tail(seq), Append(br, "stale"))
       ELSE LET i   == IdxOfCanon(c, Get(c.s2p, old))
                rec == live[i]
                own == FirstOwner(live, new)
                how == IF old = c.recs[i].p THEN "canon" ELSE "syn"
            IN IF own # 0 /\ own # i THEN RemapLoop2(c, m, live, Tail(seq), Append(br, "clash-" \o how))  \* clash: skip
               ELSE IF old \in (MKeys(m) \cap MVals(m)) /\ Taken(c, m, old)
                    THEN RemapLoop2(c, m, [live EXCEPT ![i] = [rec EXCEPT !.ps = (@ \cup {rec.p}) \ {old, new}, !.p = new]],
                                    Tail(seq), Append(br, "handover-" \o how \o (IF rec.ps \ {old, new} # {} THEN "+names" ELSE "")))
                    ELSE RemapLoop2(c, m, [live EXCEPT ![i] = [rec EXCEPT !.ps = (@ \cup {rec.p}) \ {new}, !.p = new]],
                                    Tail(seq), Append(br, (IF own = i THEN "own-" ELSE IF old \in (MKeys(m) \cap MVals(m)) THEN "untaken-" ELSE "plain-") \o how
                                                                   \o (IF rec.ps \ {old, new} # {} THEN "+names" ELSE "")))
RemapLoop(c, m, live, seq) == RemapLoop2(c, m, live, seq, <<>>).live
RemapBranches(c, m) ==
  LET o == OrderRemapping(c, m) IN
  IF o.err # "" THEN <<o.err>> ELSE RemapLoop2(c, m, c.recs, o.seq, <<>>).br
RemapCurie(c, m) ==
  LET o == OrderRemapping(c, m) IN
  IF o.err # "" THEN [out |-> Raise(o.err), conv |-> c]
  ELSE LET r == Construct(RemapLoop(c, m, c.recs, o.seq), DefaultDelim, TRUE) IN
       [out |-> (IF r.out = Ok THEN Ok ELSE Raise(r.out[2])), conv |-> r.conv]

---------------------------------------------------------------------------
\* remap_uri_prefixes / rewire.  First matching key: canonical value, else a synonym
\* (when several synonyms are keys the code takes the first in list order; the spec
\* fixes the least one and the harness does not compare such cases exactly).
CandNewU(r, m) == IF r.u \in MKeys(m) THEN {m[MGet(m, r.u)][2]}
                  ELSE {m[MGet(m, s)][2] : s \in r.us \cap MKeys(m)}
CandNewP(r, m) == IF r.p \in MKeys(m) THEN {m[MGet(m, r.p)][2]}
                  ELSE {m[MGet(m, s)][2] : s \in r.ps \cap MKeys(m)}
Repoint(r, new) == [r EXCEPT !.us = (@ \cup {r.u}) \ {new}, !.u = new]
RemapURIRec(c, r, m) ==
  LET cand == CandNewU(r, m) IN
  IF cand = {} THEN r
  ELSE LET new == LexMin(cand) IN
       IF Has(c.rpm, new) /\ new \notin r.us THEN r ELSE Repoint(r, new)
RewireRec(c, r, m) ==
  LET cand == CandNewP(r, m) IN
  IF cand = {} THEN r
  ELSE LET new == LexMin(cand) IN
       IF new = r.u THEN r
       ELSE IF Has(c.rpm, new) /\ new \notin r.us THEN r ELSE Repoint(r, new)
MapSeq(s, F(_)) == [i \in 1..Len(s) |-> F(s[i])]
RemapURI(c, m) ==
  IF MKeys(m) \cap MVals(m) # {} THEN [out |-> Raise("TransitiveError"), conv |-> c]
  ELSE LET r == Construct(MapSeq(c.recs, LAMBDA x : RemapURIRec(c, x, m)), DefaultDelim, TRUE) IN
       [out |-> (IF r.out = Ok THEN Ok ELSE Raise(r.out[2])), conv |-> r.conv]
Rewire(c, m) ==
  LET r == Construct(MapSeq(c.recs, LAMBDA x : RewireRec(c, x, m)), DefaultDelim, TRUE) IN
  [out |-> (IF r.out = Ok THEN Ok ELSE Raise(r.out[2])), conv |-> r.conv]
\* coverage signature of remap_uri_prefixes / rewire: the branch each record takes
RepointBranch(c, r, m, uri) ==
  LET cand == IF uri THEN CandNewU(r, m) ELSE CandNewP(r, m)
      via == IF (IF uri THEN r.u \in MKeys(m) ELSE r.p \in MKeys(m)) THEN "canonkey" ELSE "synkey" IN
  IF cand = {} THEN "none"
  ELSE LET new == LexMin(cand) IN
       IF new = r.u THEN "same-" \o via
       ELSE IF Has(c.rpm, new) /\ new \notin r.us THEN "clash-" \o via
       ELSE IF new \in r.us THEN "promote-" \o via ELSE "fresh-" \o via
RepointBranches(c, m, uri) == {RepointBranch(c, r, m, uri) : r \in RecSet(c)}
Ambiguous(c, m, uri) == \E r \in RecSet(c) :
  Cardinality(IF uri THEN CandNewU(r, m) ELSE CandNewP(r, m)) > 1
===========================================================================
