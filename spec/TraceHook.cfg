SPECIFICATION FSpec
INVARIANT Report
CHECK_DEADLOCK FALSE
