------------------------------ MODULE TraceFn -------------------------------
(***************************************************************************)
(* Batch validator for calls of (observably) pure functions recorded from  *)
(* the implementation: the W3C validators (C20) and discover (C19).        *)
(* Input (env TRACE_FILE): string table, character classifications made by *)
(* Python for the characters that occur (whitespace, alphanumeric,         *)
(* casefold), and groups of calls {f, arguments, outcome}.  For each call  *)
(* the specification's answer and the declarative property are evaluated   *)
(* on the LOGGED values; failed clauses are printed, every group ends with *)
(* a DONE line.                                                            *)
(***************************************************************************)
EXTENDS Naturals, Sequences, FiniteSets, TLC, Json, IOUtils

D == JsonDeserialize(IOEnv.TRACE_FILE)
S(i) == D.strs[i]
FoldTab == D.fold
TFold(ch) == IF \E i \in 1..Len(FoldTab) : FoldTab[i][1] = ch
             THEN FoldTab[CHOOSE i \in 1..Len(FoldTab) : FoldTab[i][1] = ch][2]
             ELSE <<ch>>
TWS == {D.ws[i] : i \in 1..Len(D.ws)}
TAlnum == {D.alnum[i] : i \in 1..Len(D.alnum)}
AsciiLetters == (65..90) \cup (97..122)
AsciiDigits == 48..57
Focus == {D.focus[i] : i \in 1..Len(D.focus)}

W == INSTANCE W3C WITH Letters <- AsciiLetters, Digits <- AsciiDigits, WS <- TWS, Underscore <- 95, Dot <- 46,
                       Dash <- 45, Colon <- 58, Slash <- 47, LBracket <- 91, RBracket <- 93
INSTANCE Discover WITH FoldMap <- TFold, DefaultDelim <- <<58>>, Alnum <- TAlnum,
                       DefaultDelims <- <<<<35>>, <<47>>, <<95>>>>,
                       GithubHead <- <<104,116,116,112,115,58,47,47,103,105,116,104,117,98,46,99,111,109>>,
                       IssuesWord <- <<105,115,115,117,101,115>>

SSet(js) == {S(js[k]) : k \in 1..Len(js)}
SSeq(js) == [k \in 1..Len(js) |-> S(js[k])]
JRec(j) == Rec(S(j.p), S(j.u), SSet(j.ps), SSet(j.us), IF Len(j.pat) = 0 THEN <<>> ELSE <<S(j.pat[1])>>)
JMap(m) == {<<S(m[k][1]), S(m[k][2])>> : k \in 1..Len(m)}
JConv(j) == [delim |-> S(j.delim), recs |-> [k \in 1..Len(j.recs) |-> JRec(j.recs[k])], pm |-> JMap(j.pm), s2p |-> JMap(j.s2p),
             rpm |-> JMap(j.rpm), trie |-> JMap(j.trie), pat |-> JMap(j.pat)]
ConvSame(a, b) == /\ a.delim = b.delim /\ SeqToSet(a.recs) = SeqToSet(b.recs) /\ Len(a.recs) = Len(b.recs)
                  /\ a.pm = b.pm /\ a.s2p = b.s2p /\ a.rpm = b.rpm /\ a.trie = b.trie /\ a.pat = b.pat

Opt(j) == IF Len(j) = 0 THEN <<>> ELSE <<j[1]>>
CallBad(c) ==
  CASE c.f = "is_w3c_prefix" ->
         (IF c.out # W!IsW3CPrefixOp(S(c.x)) THEN {"ans.is_w3c_prefix"} ELSE {}) \cup
         (IF c.out # W!IsW3CPrefix(S(c.x)) THEN {"mon.C20.prefix"} ELSE {})
    [] c.f = "is_w3c_curie" ->
         (IF c.out # W!IsW3CCurieOp(S(c.x)) THEN {"ans.is_w3c_curie"} ELSE {}) \cup
         (IF c.out # W!IsW3CCurie(S(c.x)) THEN {"mon.C20.curie"} ELSE {})
    [] c.f = "discover" ->
         LET uris == SSeq(c.uris)  ds == SSeq(c.delims)  co == Opt(c.cutoff)  me == S(c.meta)
             cv == IF Len(c.conv) = 0 THEN <<>> ELSE <<JConv(c.conv[1])>>
             spec == Discover(uris, ds, co, me, cv)
             r == [out |-> IF c.out[1] = "ok" THEN Ok ELSE Raise(c.out[3]), conv |-> IF c.out[1] = "ok" THEN JConv(c.out[2]) ELSE EmptyConv(<<58>>)]
         IN (IF c.out[1] # "ok" THEN {"out.discover"} ELSE
             (IF ~ConvSame(spec.conv, r.conv) THEN {"post.discover"} ELSE {}) \cup
             (IF ~P_C19(uris, ds, co, me, cv, r) THEN {"mon.C19"} ELSE {}) \cup
             (IF ~P_C19_github(uris, ds, co, me, cv, r) THEN {"mon.C19.github"} ELSE {}))
    [] OTHER -> {"unknown-function"}

Groups == D.groups
VARIABLES g, step
fvars == <<g, step>>
FInit == g \in 1..Len(Groups) /\ step = 0
FNext == step = 0 /\ step' = 1 /\ UNCHANGED g
FSpec == FInit /\ [][FNext]_fvars
Report == step = 1 =>
   /\ \A k \in 1..Len(Groups[g]) : \A b \in CallBad(Groups[g][k]) : PrintT(<<"FAIL", g, k, <<b>>>>)
   /\ PrintT(<<"DONE", g>>)
=============================================================================
