------------------------------ MODULE Loaders ------------------------------
(***************************************************************************)
(* Loaders (api.py:1022-1321, 2905-2984).  Dictionaries are given as       *)
(* SEQUENCES of <<key, value>> pairs with distinct keys, so that insertion *)
(* order is explicit.  Each loader builds records and hands them to the    *)
(* strict (or non-strict) constructor, exactly like the code.              *)
(***************************************************************************)
EXTENDS DeriveProps

DistinctKeys(d) == \A i, j \in 1..Len(d) : d[i][1] = d[j][1] => i = j

\* records that fail the pydantic validators make the loader raise ValueError
ConstructValid(rs, delim, strict) ==
  IF \E i \in 1..Len(rs) : ~ValidRec(rs[i]) THEN [out |-> Raise("valueerror"), conv |-> EmptyConv(delim)]
  ELSE Construct(rs, delim, strict)

FromPrefixMap(d, delim, strict) ==
  ConstructValid([i \in 1..Len(d) |-> Rec(d[i][1], d[i][2], {}, {}, NoPat)], delim, strict)

\* values are non-empty sequences of URI prefixes; first one is canonical
FromPriorityPrefixMap(d, delim, strict) ==
  ConstructValid([i \in 1..Len(d) |-> Rec(d[i][1], d[i][2][1], {}, SeqToSet(Tail(d[i][2])), NoPat)], delim, strict)

\* reverse prefix map: <<uri_prefix, prefix>>; group by prefix in order of first
\* appearance; canonical = first of the group in a STABLE sort by length
RECURSIVE FirstSeen(_, _)
FirstSeen(d, seen) == IF d = <<>> THEN <<>>
                      ELSE IF d[1][2] \in seen THEN FirstSeen(Tail(d), seen)
                      ELSE <<d[1][2]>> \o FirstSeen(Tail(d), seen \cup {d[1][2]})
GroupOf(d, p) == SelectSeq(d, LAMBDA kv : kv[2] = p)
ShortestFirst(g) == LET n == CHOOSE n \in {Len(g[i][1]) : i \in 1..Len(g)} : \A i \in 1..Len(g) : n <= Len(g[i][1])
                        i0 == CHOOSE i \in 1..Len(g) : Len(g[i][1]) = n /\ \A j \in 1..(i - 1) : Len(g[j][1]) # n
                    IN g[i0][1]
FromReversePrefixMap(d, delim, strict) ==
  LET ps == FirstSeen(d, {}) IN
  ConstructValid([i \in 1..Len(ps) |->
                    LET g == GroupOf(d, ps[i])  u == ShortestFirst(g) IN
                    Rec(ps[i], u, {}, {g[k][1] : k \in 1..Len(g)} \ {u}, NoPat)], delim, strict)

FromEPM(rs, delim, strict) == ConstructValid(rs, delim, strict)

\* JSON-LD @context: <<key, term>>, term = <<"str", u>> | <<"pdict", u>> (a dictionary with
\* "@prefix": true and "@id": u) | <<"other">> (anything else: @prefix false / absent, lists, ...)
JsonLDTaken(d) == SelectSeq(d, LAMBDA kv : kv[1] # <<>> /\ kv[1][1] # 64 /\ kv[2][1] \in {"str", "pdict"})
FromJsonLD(d, delim, strict) ==
  LET t == JsonLDTaken(d) IN FromPrefixMap([i \in 1..Len(t) |-> <<t[i][1], t[i][2][2]>>], delim, strict)

\* upgrade_prefix_map: group by URI prefix; sorted prefixes, first canonical; records
\* in sorted URI prefix order
UpgradePrefixMap(d) ==
  LET us == SortStrings({d[i][2] : i \in 1..Len(d)}) IN
  [i \in 1..Len(us) |->
     LET ps == SortStrings({d[k][1] : k \in {k \in 1..Len(d) : d[k][2] = us[i]}}) IN
     Rec(ps[1], us[i], SeqToSet(Tail(ps)), {}, NoPat)]

---------------------------------------------------------------------------
\* C13, declaratively: what the input denotes
P_C13_pm(d, r) ==              \* each listed pair expands and compresses accordingly
  r.out = Ok => /\ \A i \in 1..Len(d) : Has(r.conv.pm, d[i][1]) /\ Get(r.conv.pm, d[i][1]) = d[i][2]
                /\ \A i \in 1..Len(d) : Has(r.conv.trie, d[i][2]) /\ Get(r.conv.trie, d[i][2]) = d[i][1]
                /\ KnownP(r.conv) = {d[i][1] : i \in 1..Len(d)} /\ KnownU(r.conv) = {d[i][2] : i \in 1..Len(d)}
                /\ \A x \in RecSet(r.conv) : x.ps = {} /\ x.us = {}
P_C13_ppm(d, r) ==
  r.out = Ok => /\ \A i \in 1..Len(d) :
                     /\ Has(r.conv.pm, d[i][1]) /\ Get(r.conv.pm, d[i][1]) = d[i][2][1]
                     /\ \A k \in 1..Len(d[i][2]) : Has(r.conv.trie, d[i][2][k]) /\ Get(r.conv.trie, d[i][2][k]) = d[i][1]
                /\ KnownP(r.conv) = {d[i][1] : i \in 1..Len(d)}
                /\ KnownU(r.conv) = UNION {SeqToSet(d[i][2]) : i \in 1..Len(d)}
P_C13_rpm(d, r) ==
  r.out = Ok => /\ \A i \in 1..Len(d) : Has(r.conv.trie, d[i][1]) /\ Get(r.conv.trie, d[i][1]) = d[i][2]
                /\ KnownU(r.conv) = {d[i][1] : i \in 1..Len(d)} /\ KnownP(r.conv) = {d[i][2] : i \in 1..Len(d)}
                /\ \A x \in RecSet(r.conv) :         \* canonical URI prefix: a shortest of its group
                     /\ \A y \in AllU(x) : Len(x.u) <= Len(y)
                     /\ AllU(x) = {d[i][1] : i \in {i \in 1..Len(d) : d[i][2] = x.p}}
P_C13_jsonld(d, r) ==
  LET taken == {i \in 1..Len(d) : d[i][1] # <<>> /\ d[i][1][1] # 64 /\ d[i][2][1] \in {"str", "pdict"}} IN
  r.out = Ok => /\ KnownP(r.conv) = {d[i][1] : i \in taken}
                /\ \A i \in taken : Get(r.conv.pm, d[i][1]) = d[i][2][2]
P_C13_upgrade(d, rs) ==
  LET r == Construct(rs, <<58>>, TRUE) IN
  /\ \A i \in 1..Len(rs) : ValidRec(rs[i])
  /\ r.out = Ok                                      \* always acceptable to a strict converter
  /\ \A i \in 1..Len(d) : Get(r.conv.pm, d[i][1]) = d[i][2]
  /\ KnownP(r.conv) = {d[i][1] : i \in 1..Len(d)} /\ KnownU(r.conv) = {d[i][2] : i \in 1..Len(d)}
  /\ \A x \in RecSet(r.conv) : \A y \in AllP(x) : LexLE(x.p, y)    \* lexicographically first is canonical
=============================================================================
