-------------------------------- MODULE Bulk --------------------------------
(***************************************************************************)
(* Bulk operations (api.py:2188-2384).                                     *)
(*  file_compress / file_expand -> _file_helper, modelled as a STEP        *)
(*  MACHINE: all rows are read and converted into a buffer first, the file *)
(*  is re-opened for writing only afterwards; a cell that makes the scalar *)
(*  method raise (strict mode) or a row too short for the column aborts    *)
(*  the call before anything is written.                                   *)
(*  pd_* -> the scalar method mapped over one column.                      *)
(* A table is a sequence of rows, a row a sequence of cells (strings).     *)
(***************************************************************************)
EXTENDS Props

\* the scalar function a bulk call applies to each cell
BulkMethod(kind, ambiguous) ==
  CASE kind = "compress" -> IF ambiguous THEN "compress_or_standardize" ELSE "compress"
    [] kind = "expand"   -> IF ambiguous THEN "expand_or_standardize" ELSE "expand"
    [] OTHER -> kind            \* standardize_prefix / standardize_curie / standardize_uri (data frames)
Cell(c, meth, md, x) == Ans(c, meth, md, x)           \* <<"val", s>> | <<"none">> | <<"raise", _>>
\* what ends up in a FILE cell: `func(cell) or ""`
FileCell(o) == IF IsVal(o) THEN o[2] ELSE <<>>

\* index of the first row that makes the call raise (0: none)
RowFails(c, meth, md, row, col) == col > Len(row) \/ Cell(c, meth, md, row[col])[1] = "raise"
FirstFailing(c, meth, md, rows, col) ==
  LET bad == {i \in 1..Len(rows) : RowFails(c, meth, md, rows[i], col)} IN
  IF bad = {} THEN 0 ELSE CHOOSE i \in bad : \A j \in bad : i <= j
ConvertRow(c, meth, md, row, col) == [row EXCEPT ![col] = FileCell(Cell(c, meth, md, row[col]))]
\* the table a successful call leaves on disk (header row untouched)
Expected(c, meth, md, header, rows, col) == header \o [i \in 1..Len(rows) |-> ConvertRow(c, meth, md, rows[i], col)]

---------------------------------------------------------------------------
\* The step machine.  header = <<>> or <<row>>.
VARIABLES disk,     \* table currently in the file
          buf,      \* rows converted so far (in memory)
          pc,       \* "idle" | "reading" | "done" | "failed"
          job       \* [c, meth, md, header, rows, col]  (rows = the data rows read at Begin)
bvars == <<disk, buf, pc, job>>

\* the machine itself is BulkMachine.tla (uninterpreted cell semantics; tlaps/C16_Machine.tla proves C16's clauses about
\* it for tables of any length), instantiated with the scalar methods of the converter specification
BM == INSTANCE BulkMachine WITH Fails <- LAMBDA j, row : RowFails(j.c, j.meth, j.md, row, j.col),
                                Conv <- LAMBDA j, row : ConvertRow(j.c, j.meth, j.md, row, j.col)
Begin(c, meth, md, hasHeader, col) ==
  BM!BeginG([c |-> c, meth |-> meth, md |-> md, col |-> col,
             header |-> IF hasHeader /\ Len(disk) > 0 THEN <<disk[1]>> ELSE <<>>,
             rows |-> IF hasHeader /\ Len(disk) > 0 THEN Tail(disk) ELSE disk])
\* one row is converted; the file is not touched
StepRow == BM!StepRowG
\* only after the last row: re-open for writing and write everything
WriteAll == BM!WriteAllG

\* C16, atomicity clause: while rows are being converted, and after a failure, the file is what it was
Disk0 == job.header \o job.rows
P_C16_atomic == pc \in {"reading", "failed"} => disk = Disk0
P_C16_done == pc = "done" => disk = Expected(job.c, job.meth, job.md, job.header, job.rows, job.col)
P_C16_failpos == pc = "failed" => Len(buf) + 1 = FirstFailing(job.c, job.meth, job.md, job.rows, job.col)
=============================================================================
