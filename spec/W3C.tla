-------------------------------- MODULE W3C --------------------------------
(***************************************************************************)
(* curies.w3c (w3c.py:30-170): the two validators.                         *)
(*   operational  -- the code: the NCName regex and the three alternatives *)
(*                   of the local-unique-identifier regex as predicates    *)
(*                   (full-string match, the repaired behaviour, DESIGN    *)
(*                   F7), and is_w3c_curie's control flow;                 *)
(*   declarative  -- the grammar as property C20 states it.                *)
(* Character classes are constants: small integers in the bounded model,   *)
(* code points in trace validation (whitespace = Python's str.isspace).    *)
(***************************************************************************)
EXTENDS Text
CONSTANTS Letters,      \* ASCII letters
          Digits,       \* ASCII digits
          WS,           \* whitespace characters
          Underscore, Dot, Dash, Colon, Slash, LBracket, RBracket

NameStart == Letters \cup {Underscore}
NameChar == Letters \cup Digits \cup {Dot, Dash, Underscore}

\* --- operational -----------------------------------------------------------
\* NCNAME_RE = [A-Za-z_][A-Za-z0-9\.\-_]*   (fullmatch)
NCNameOp(s) == Len(s) >= 1 /\ s[1] \in NameStart /\ \A i \in 2..Len(s) : s[i] \in NameChar
\* LOCAL_UNIQUE_IDENTIFIER_RE = (/[^\s/][^\s]*|[^\s/][^\s]*|[^\s]?)   (fullmatch)
Alt1(s) == Len(s) >= 2 /\ s[1] = Slash /\ s[2] \notin WS \cup {Slash} /\ \A i \in 3..Len(s) : s[i] \notin WS
Alt2(s) == Len(s) >= 1 /\ s[1] \notin WS \cup {Slash} /\ \A i \in 2..Len(s) : s[i] \notin WS
Alt3(s) == Len(s) = 0 \/ (Len(s) = 1 /\ s[1] \notin WS)
LuidOp(s) == Alt1(s) \/ Alt2(s) \/ Alt3(s)
IsW3CPrefixOp(s) == NCNameOp(s)
Blank(s) == \A i \in 1..Len(s) : s[i] \in WS                    \* not curie.strip()
IsW3CCurieOp(s) ==
  IF \E i \in 1..Len(s) : s[i] \in {LBracket, RBracket} THEN FALSE
  ELSE IF Blank(s) THEN FALSE
  ELSE IF ~Contains(s, <<Colon>>) THEN LuidOp(s)
  ELSE LET p == PartBefore(s, <<Colon>>)  r == PartAfter(s, <<Colon>>) IN
       IF p = <<>> THEN LuidOp(r) ELSE IsW3CPrefixOp(p) /\ LuidOp(r)

\* --- declarative (property C20) ------------------------------------------------
NCName(s) == s # <<>> /\ Head(s) \in NameStart /\ SeqToSet(Tail(s)) \subseteq NameChar
Reference(r) == SeqToSet(r) \cap WS = {} /\ ~IsPfx(<<Slash, Slash>>, r)
IsW3CPrefix(s) == NCName(s)
IsW3CCurie(s) ==
  /\ s # <<>> /\ ~Blank(s)
  /\ SeqToSet(s) \cap (WS \cup {LBracket, RBracket}) = {}
  /\ IF Colon \in SeqToSet(s)
     THEN LET p == PartBefore(s, <<Colon>>)  r == PartAfter(s, <<Colon>>) IN (p = <<>> \/ NCName(p)) /\ Reference(r)
     ELSE Reference(s)
P_C20(s) == IsW3CPrefixOp(s) = IsW3CPrefix(s) /\ IsW3CCurieOp(s) = IsW3CCurie(s)
=============================================================================
