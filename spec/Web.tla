-------------------------------- MODULE Web --------------------------------
(***************************************************************************)
(* The two small web services.                                             *)
(*  Resolver (resolver_service.py:75-86, 211-235): URL routing of          *)
(*   /<prefix><delimiter><identifier> as the frameworks do it (the prefix  *)
(*   matches greedily), the handler's re-split at the FIRST delimiter      *)
(*   (repaired behaviour, DESIGN F5), expand_pair, 302 / 422.              *)
(*  Mapping service (mapping_service/api.py:95-117, utils.py:119-147):     *)
(*   the equivalent-URI answer of a SPARQL binding and content             *)
(*   negotiation over a structured Accept header (repaired: optional       *)
(*   whitespace and `; q=` parameters are understood, DESIGN F6).          *)
(***************************************************************************)
EXTENDS DeriveProps
CONSTANTS SlashCh,        \* '/'
          InvalidIRI      \* characters rdflib refuses inside an IRI

---------------------------------------------------------------------------
\* Resolver.  path = "/" \o rest.  A route match is a position i of the delimiter in rest.
DelimPositions(rest, d) == {i \in 1..Len(rest) : i + Len(d) - 1 <= Len(rest) /\ SubSeq(rest, i, i + Len(d) - 1) = d}
NoSlash(s) == \A k \in 1..Len(s) : s[k] # SlashCh
\* Flask/werkzeug rule "/<prefix>D<path:identifier>": prefix = [^/]+ (greedy), identifier = [^/].*
FlaskMatches(rest, d) == {i \in DelimPositions(rest, d) :
     LET p == Take(rest, i - 1)  id == Drop(rest, i + Len(d) - 1) IN
     p # <<>> /\ NoSlash(p) /\ id # <<>> /\ id[1] # SlashCh}
\* Starlette rule "/{prefix}D{identifier:path}": prefix = [^/]+ (greedy), identifier = .*
StarletteMatches(rest, d) == {i \in DelimPositions(rest, d) :
     LET p == Take(rest, i - 1) IN p # <<>> /\ NoSlash(p)}
Greedy(M) == CHOOSE i \in M : \A j \in M : j <= i
\* handler: re-join and split at the first delimiter, then expand_pair
Handle(c, p0, id0) ==
  LET curie == p0 \o c.delim \o id0
      p == PartBefore(curie, c.delim)  id == PartAfter(curie, c.delim)
      e == ExpandRef(c, p, id, Default)
  IN IF IsVal(e) THEN <<302, e[2]>> ELSE <<422, <<>>>>
Resolve(c, fw, path) ==
  IF path = <<>> \/ path[1] # SlashCh THEN <<404, <<>>>>
  ELSE LET rest == Tail(path)
           M == IF fw = "flask" THEN FlaskMatches(rest, c.delim) ELSE StarletteMatches(rest, c.delim) IN
       IF M = {} THEN <<404, <<>>>>
       ELSE LET i == Greedy(M) IN Handle(c, Take(rest, i - 1), Drop(rest, i + Len(c.delim) - 1))

\* C17, declaratively: for a request /p D id with p a non-empty slash-free delimiter-free prefix and
\* id made of non-empty segments, the answer is where expand points -- on both frameworks
Segmented(id) == id # <<>> /\ id[1] # SlashCh /\ id[Len(id)] # SlashCh /\ ~Contains(id, <<SlashCh, SlashCh>>)
P_C17(c, p, id, ans(_)) ==
  (p # <<>> /\ NoSlash(p) /\ ~Contains(p, c.delim) /\ Segmented(id)) =>
     LET path == <<SlashCh>> \o p \o c.delim \o id
         want == IF p \in KnownP(c) THEN <<302, OwnerP(c, p).u \o id>> ELSE <<422, <<>>>> IN
     ans("flask") = want /\ ans("fastapi") = want

---------------------------------------------------------------------------
\* Mapping service answer: the other variable ranges over the valid members of
\* expand_all(compress(u)); nothing for unrecognised u or a predicate that is not configured
ValidIRI(x) == \A k \in 1..Len(x) : x[k] \notin InvalidIRI
MappingAnswer(c, u, configured) ==
  IF ~configured THEN {}
  ELSE LET r == ParseURIRaw(c, u) IN
       IF ~IsVal(r) THEN {}
       ELSE LET ea == ExpandPairAll(c, r[2][1], r[2][2], TRUE) IN
            IF ~IsVal(ea) THEN {} ELSE {x \in AllOf(ea) : ValidIRI(x)}
\* declaratively (C18): u's canonical and synonym renderings
P_C18_answer(c, u, configured, got) ==
  LET cand == {x \in KnownU(c) : IsPfx(x, u)} IN
  IF ~configured \/ cand = {} THEN got = {}
  ELSE LET k == LongestCand(c, u)  o == OwnerU(c, k)  id == Drop(u, Len(k)) IN
       got = {x \in {y \o id : y \in AllU(o)} : ValidIRI(x)}

\* Content negotiation.  A header is a sequence of <<media type, q in thousandths>>;
\* Supported / Synonym are given as data (utils.py:37-51).
CONSTANTS Supported,       \* set of canonical result types
          SynonymOf(_),    \* media type -> canonical type (identity when not a synonym)
          DefaultType
\* stable sort by descending q: repeatedly take the first element with the highest q
RECURSIVE ByQ(_)
ByQ(h) == IF h = <<>> THEN <<>>
          ELSE LET i == CHOOSE i \in 1..Len(h) : /\ \A j \in 1..Len(h) : h[j][2] <= h[i][2]
                                                /\ \A j \in 1..(i - 1) : h[j][2] < h[i][2]
               IN <<h[i]>> \o ByQ(SubSeq(h, 1, i - 1) \o SubSeq(h, i + 1, Len(h)))
RECURSIVE FirstSupported(_)
FirstSupported(h) == IF h = <<>> THEN DefaultType
                     ELSE IF SynonymOf(h[1][1]) \in Supported THEN SynonymOf(h[1][1]) ELSE FirstSupported(Tail(h))
Negotiate(h) == FirstSupported(ByQ(h))          \* h = <<>> : no / empty Accept header
\* declaratively (C18): the supported type with the highest q, first listed among equals
P_C18_neg(h, got) ==
  LET ok == {i \in 1..Len(h) : SynonymOf(h[i][1]) \in Supported} IN
  IF ok = {} THEN got = DefaultType
  ELSE LET best == CHOOSE i \in ok : /\ \A j \in ok : h[j][2] <= h[i][2]
                                     /\ \A j \in ok : (j < i) => h[j][2] < h[i][2]
       IN got = SynonymOf(h[best][1])
=============================================================================
