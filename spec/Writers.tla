------------------------------ MODULE Writers -------------------------------
(***************************************************************************)
(* Writers and the matching readers (api.py:2666-2902, 1323-1358) at the   *)
(* level of what a file DENOTES: a document is a structured value, not     *)
(* bytes.  Character escaping (JSON, Turtle, TSV) is deliberately not      *)
(* modelled; it is explored by running the real writers and readers over   *)
(* hazard alphabets, and the read-back converter is compared with the one  *)
(* this module predicts.                                                   *)
(***************************************************************************)
EXTENDS Loaders

\* write_extended_prefix_map: one dictionary per record; empty synonym lists and a
\* missing / empty pattern are omitted -- reading restores the defaults
EPMDoc(c) == c.recs
ReadEPM(doc, delim) == FromEPM(doc, delim, TRUE)

\* write_jsonld_context: prefix -> URI prefix (plain string or {"@id", "@prefix": true});
\* with include_synonyms every CURIE-prefix synonym points to the same term
RECURSIVE Flatten(_)
Flatten(ss) == IF ss = <<>> THEN <<>> ELSE ss[1] \o Flatten(Tail(ss))
JsonLDEntries(c, syn) ==
  Flatten([i \in 1..Len(c.recs) |->
     LET r == c.recs[i] IN <<<<r.p, r.u>>>> \o (IF syn THEN [k \in 1..Len(SortStrings(r.ps)) |-> <<SortStrings(r.ps)[k], r.u>>] ELSE <<>>)])
JsonLDDoc(c, syn, expand) ==
  LET e == JsonLDEntries(c, syn) IN [k \in 1..Len(e) |-> <<e[k][1], <<IF expand THEN "pdict" ELSE "str", e[k][2]>>>>]
ReadJsonLD(doc, delim, strict) == FromJsonLD(doc, delim, strict)

\* write_shacl: one declaration (prefix, namespace, optional pattern) per canonical prefix
\* and, with include_synonyms, per synonym; from_shacl builds one record per declaration
ShaclDecls(c, syn) ==
  Flatten([i \in 1..Len(c.recs) |->
     LET r == c.recs[i]  pat == IF HasPat(r) THEN r.pat ELSE NoPat IN
     <<Rec(r.p, r.u, {}, {}, pat)>> \o
     (IF syn THEN [k \in 1..Len(SortStrings(r.ps)) |-> Rec(SortStrings(r.ps)[k], r.u, {}, {}, pat)] ELSE <<>>)])
ReadShacl(decls, strict) == Construct(decls, DefaultDelim, strict)

\* write_tsv: header + one (prefix, URI prefix) row per record
TsvRows(c) == [i \in 1..Len(c.recs) |-> <<c.recs[i].p, c.recs[i].u>>]
ReadTsv(rows) == FromPrefixMap(rows, DefaultDelim, TRUE)

\* the converter a round trip yields
RoundTrip(fmt, syn, expand, c) ==
  CASE fmt = "epm" -> ReadEPM(EPMDoc(c), c.delim)
    [] fmt = "jsonld" -> ReadJsonLD(JsonLDDoc(c, syn, expand), DefaultDelim, ~syn)
    [] fmt = "shacl" -> ReadShacl(ShaclDecls(c, syn), ~syn)
    [] fmt = "tsv" -> ReadTsv(TsvRows(c))

\* files as values: [fmt, syn, expand, delim, doc] (spec/System.tla keeps them in the state)
DocOf(fmt, syn, expand, c) ==
  CASE fmt = "epm" -> EPMDoc(c)
    [] fmt = "jsonld" -> JsonLDDoc(c, syn, expand)
    [] fmt = "shacl" -> ShaclDecls(c, syn)
    [] fmt = "tsv" -> TsvRows(c)

\* the matching reader (load_extended_prefix_map(delimiter=...), load_jsonld_context(strict = not synonyms),
\* load_shacl(strict = not synonyms), load_prefix_map of the two TSV columns)
ReadFile(f) ==
  CASE f.fmt = "epm" -> ReadEPM(f.doc, f.delim)
    [] f.fmt = "jsonld" -> ReadJsonLD(f.doc, DefaultDelim, ~f.syn)
    [] f.fmt = "shacl" -> ReadShacl(f.doc, ~f.syn)
    [] f.fmt = "tsv" -> ReadTsv(f.doc)


---------------------------------------------------------------------------
\* C14, declaratively
PatOf(c) == {<<r.p, r.pat[1]>> : r \in {x \in RecSet(c) : HasPat(x)}}
P_C14(fmt, syn, c, r) ==
  /\ r.out = Ok
  /\ LET d == r.conv IN
     CASE fmt = "epm" -> RecSet(d) = RecSet(c) /\ Len(d.recs) = Len(c.recs)
       [] fmt = "tsv" -> Bimap(d) = Bimap(c)
       [] fmt = "jsonld" -> IF syn THEN d.pm = c.pm ELSE Bimap(d) = Bimap(c)
       [] fmt = "shacl" -> /\ IF syn THEN d.pm = c.pm ELSE Bimap(d) = Bimap(c)
                           /\ \A kv \in PatOf(c) : kv \in d.pat
                           /\ \A kv \in d.pat : kv[1] \in {x.p : x \in RecSet(c)} => kv \in PatOf(c)
\* the converters C14 quantifies over, per format
InC14(fmt, syn, c) ==
  /\ OneOwner(c)
  /\ fmt = "jsonld" => \A p \in (IF syn THEN KnownP(c) ELSE {r.p : r \in RecSet(c)}) : p # <<>> /\ p[1] # 64
  /\ fmt = "shacl" => Len(c.recs) > 0
=============================================================================
