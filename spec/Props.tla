------------------------------- MODULE Props ------------------------------
(***************************************************************************)
(* The given properties C01..C08 (query level), stated DECLARATIVELY over  *)
(* the records of a converter, as the property texts read.  They never     *)
(* mention the lookup structures; the operational operators of Conv.tla    *)
(* never mention the record-level notions (owner, longest candidate).      *)
(* TLC checks that the two agree on every reachable converter and every    *)
(* probe string of the bounded models; the trace validator evaluates the   *)
(* same formulas on values logged from the implementation.                 *)
(***************************************************************************)
EXTENDS Conv

KnownP(c) == UNION {AllP(r) : r \in RecSet(c)}
KnownU(c) == UNION {AllU(r) : r \in RecSet(c)}
\* total (the trace validator evaluates the formulas on logged answers that need not fit the records)
NoRec == Rec(<<0>>, <<0>>, {}, {}, NoPat)
OwnerP(c, x) == IF \E r \in RecSet(c) : x \in AllP(r) THEN CHOOSE r \in RecSet(c) : x \in AllP(r) ELSE NoRec
OwnerU(c, x) == IF \E r \in RecSet(c) : x \in AllU(r) THEN CHOOSE r \in RecSet(c) : x \in AllU(r) ELSE NoRec

\* C04/C05: one owner per CURIE prefix and per URI prefix
OneOwner(c) ==
  /\ Len(c.recs) = Cardinality(RecSet(c))
  /\ \A r \in RecSet(c) : ValidRec(r)
  /\ \A r1, r2 \in RecSet(c) : r1 # r2 => AllP(r1) \cap AllP(r2) = {} /\ AllU(r1) \cap AllU(r2) = {}
\* the lookup structures are what a fresh construction from the records gives
IndexesFresh(c) ==
  LET f == Fresh(c.recs, c.delim) IN
  /\ c.pm = f.pm /\ c.s2p = f.s2p /\ c.rpm = f.rpm /\ c.trie = f.trie
\* bimap / reverse_bimap are mutually inverse bijections over the records
BimapsInverse(c) ==
  /\ IsMap(Bimap(c)) /\ IsMap(ReverseBimap(c))
  /\ ReverseBimap(c) = {<<kv[2], kv[1]>> : kv \in Bimap(c)}
  /\ Cardinality(Bimap(c)) = Len(c.recs)
PrefixFree(c) == \A x, y \in KnownU(c) : ~IsProperPfx(x, y)
\* property quantifier of C02/C03: CURIE prefixes do not contain the delimiter
DelimFreePrefixes(c) == \A p \in KnownP(c) : ~Contains(p, c.delim)

Strict == Mode(TRUE, FALSE, TRUE)
Pass == Mode(FALSE, TRUE, TRUE)
Both == Mode(TRUE, TRUE, TRUE)

---------------------------------------------------------------------------
(* The query-level properties are parameterised by an ANSWER ORACLE           *)
(*    A(method, mode, string)   and   AP(method, mode, prefix, identifier)    *)
(* In the bounded models the oracle is the operational specification          *)
(* (Conv!Ans on the converter value); in trace validation it is a lookup in   *)
(* the table of answers LOGGED from the implementation, so the same formula   *)
(* is evaluated on observed values only.  `c` is consulted for its records    *)
(* and delimiter, never for its lookup structures.                            *)
SpecA(c, m, md, x) == Ans(c, m, md, x)
SpecAP(c, m, md, p, id) == AnsPair(c, m, md, p, id)

\* C01: the longest registered URI prefix wins
LongestCand(c, u) == LET cand == {x \in KnownU(c) : IsPfx(x, u)} IN
                     IF cand = {} THEN <<0>> ELSE CHOOSE k \in cand : \A k2 \in cand : Len(k2) <= Len(k)
P_C01(c, u, A(_, _, _)) ==
  LET cand == {x \in KnownU(c) : IsPfx(x, u)} IN
  IF cand = {} THEN /\ A("parse_uri", Default, u) = None1
                    /\ A("compress", Default, u) = None1
                    /\ A("is_uri", Default, u) = Val(FALSE)
  ELSE LET k == LongestCand(c, u)  o == OwnerU(c, k)  rest == Drop(u, Len(k)) IN
       /\ A("parse_uri", Default, u) = Val(<<o.p, rest>>)
       /\ A("compress", Default, u) = Val(o.p \o c.delim \o rest)
       /\ A("is_uri", Default, u) = Val(TRUE)

\* C02: expansion resolves any prefix or synonym, split at the FIRST delimiter
P_C02(c, s, A(_, _, _), AP(_, _, _, _)) ==
  IF ~Contains(s, c.delim) THEN A("expand", Default, s) = None1 /\ A("expand_all", Default, s) = None1
  ELSE LET p == PartBefore(s, c.delim)  id == PartAfter(s, c.delim) IN
       IF p \in KnownP(c)
       THEN LET o == OwnerP(c, p) IN
            /\ A("expand", Default, s) = Val(o.u \o id)
            /\ AP("expand_pair", Default, p, id) = Val(o.u \o id)
            /\ AP("expand_reference", Default, p, id) = Val(o.u \o id)
            /\ A("expand_all", Default, s) = Val(<<o.u \o id, {x \o id : x \in o.us}>>)
            /\ AP("expand_pair_all", Default, p, id) = A("expand_all", Default, s)
       ELSE /\ A("expand", Default, s) = None1
            /\ AP("expand_pair", Default, p, id) = None1
            /\ AP("expand_reference", Default, p, id) = None1
            /\ A("expand_all", Default, s) = None1
            /\ AP("expand_pair_all", Default, p, id) = None1

\* C03: lossless compression; inverse on prefix-free maps
AllOf(ea) == {ea[2][1]} \cup ea[2][2]          \* members of an expand_all value
P_C03(c, s, A(_, _, _)) ==
  LET cu == A("compress", Default, s)  ex == A("expand", Default, s) IN
  /\ IsVal(cu) =>
       /\ IsVal(A("expand_all", Default, cu[2])) /\ s \in AllOf(A("expand_all", Default, cu[2]))
       /\ A("expand", Default, cu[2]) = A("standardize_uri", Default, s)
       /\ (\E r \in RecSet(c) : LongestCand(c, s) = r.u) => A("expand", Default, cu[2]) = Val(s)
  /\ IsVal(ex) => IsVal(A("compress", Default, ex[2]))
  /\ PrefixFree(c) =>
       /\ IsVal(ex) => A("compress", Default, ex[2]) = A("standardize_curie", Default, s)
       /\ IsVal(cu) => A("expand", Default, cu[2]) = A("standardize_uri", Default, s)

\* C06: standardisation is canonical, idempotent, meaning preserving
P_C06(c, s, A(_, _, _)) ==
  LET sp == A("standardize_prefix", Default, s)
      sc == A("standardize_curie", Default, s)
      su == A("standardize_uri", Default, s) IN
  /\ IF s \in KnownP(c) THEN sp = Val(OwnerP(c, s).p) ELSE sp = None1
  /\ IsVal(sp) => A("standardize_prefix", Default, sp[2]) = sp
  /\ IF Contains(s, c.delim) /\ PartBefore(s, c.delim) \in KnownP(c)
     THEN sc = Val(OwnerP(c, PartBefore(s, c.delim)).p \o c.delim \o PartAfter(s, c.delim))
     ELSE sc = None1
  /\ (IsVal(sc) /\ DelimFreePrefixes(c)) =>
        /\ A("standardize_curie", Default, sc[2]) = sc
        /\ A("expand", Default, sc[2]) = A("expand", Default, s)
  /\ LET cand == {x \in KnownU(c) : IsPfx(x, s)} IN
     IF cand = {} THEN su = None1
     ELSE LET k == LongestCand(c, s) IN su = Val(OwnerU(c, k).u \o Drop(s, Len(k)))
  /\ (IsVal(su) /\ PrefixFree(c)) =>
        /\ A("standardize_uri", Default, su[2]) = su
        /\ A("compress", Default, su[2]) = A("compress", Default, s)

\* C07: derived operations agree with the two primitive parsers
P_C07(c, s, A(_, _, _)) ==
  LET pu == A("parse_uri", Default, s)  pc == A("parse_curie", Default, s)  pa == A("parse", Default, s)
      isuri == A("is_uri", Default, s) = Val(TRUE)
      iscurie == A("is_curie", Default, s) = Val(TRUE) IN
  /\ A("is_uri", Default, s)[1] = "val" /\ A("is_curie", Default, s)[1] = "val"
  /\ isuri <=> IsVal(A("compress", Default, s))
  /\ isuri <=> IsVal(pu)
  /\ iscurie <=> (Contains(s, c.delim) /\ PartBefore(s, c.delim) \in KnownP(c))
  /\ iscurie <=> IsVal(A("expand", Default, s))
  /\ pa = (IF isuri THEN pu ELSE IF iscurie THEN pc ELSE None1)
  /\ A("compress_or_standardize", Default, s) = (IF IsVal(pa) THEN Val(pa[2][1] \o c.delim \o pa[2][2]) ELSE None1)
  /\ A("expand_or_standardize", Default, s) =
        (IF IsVal(pa) /\ pa[2][1] \in KnownP(c) THEN Val(OwnerP(c, pa[2][1]).u \o pa[2][2]) ELSE None1)
  /\ A("compress_strict", Default, s) = A("compress", Strict, s)
  /\ A("expand_strict", Default, s) = A("expand", Strict, s)

\* C08: modes differ only in failure reporting.  `input` is what passthrough hands back.
ModeLaw(m, x, input, A(_, _, _)) ==
  LET d == A(m, Default, x) IN
  /\ d[1] \in {"val", "none"}
  /\ A(m, Pass, x) = (IF IsVal(d) THEN d ELSE Val(input))
  /\ A(m, Strict, x) = (IF IsVal(d) THEN d ELSE Raise("curies"))
  /\ A(m, Both, x) = A(m, Strict, x)
StrictLaw(m, x, A(_, _, _)) ==
  LET d == A(m, Default, x) IN
  /\ d[1] \in {"val", "none"}
  /\ A(m, Strict, x) = (IF IsVal(d) THEN d ELSE Raise("curies"))
ModeMethods == {"compress", "expand", "compress_or_standardize", "expand_or_standardize",
                "standardize_prefix", "standardize_curie", "standardize_uri"}
StrictMethods == {"expand_all", "parse", "parse_curie", "parse_uri"}
P_C08(c, s, A(_, _, _)) ==
  /\ \A m \in ModeMethods : ModeLaw(m, s, s, A)
  /\ \A m \in StrictMethods : StrictLaw(m, s, A)
  /\ A("parse_uri", Mode(FALSE, FALSE, FALSE), s) =
        (IF IsVal(A("parse_uri", Default, s)) THEN A("parse_uri", Default, s) ELSE None2)
\* pair variants: passthrough renders the CURIE
P_C08pair(c, p, id, AP(_, _, _, _)) ==
  /\ \A m \in {"expand_pair", "expand_reference"} :
       LET d == AP(m, Default, p, id) IN
       /\ d[1] \in {"val", "none"}
       /\ AP(m, Pass, p, id) = (IF IsVal(d) THEN d ELSE Val(p \o c.delim \o id))
       /\ AP(m, Strict, p, id) = (IF IsVal(d) THEN d ELSE Raise("curies"))
       /\ AP(m, Both, p, id) = AP(m, Strict, p, id)
  /\ LET d == AP("expand_pair_all", Default, p, id) IN
       /\ d[1] \in {"val", "none"}
       /\ AP("expand_pair_all", Strict, p, id) = (IF IsVal(d) THEN d ELSE Raise("curies"))
===========================================================================
