---------------------------- MODULE BulkMachine ----------------------------
(***************************************************************************)
(* The file helper's step machine over UNINTERPRETED cell semantics:       *)
(* Fails(job, row) -- the row makes the call raise; Conv(job, row) -- the  *)
(* converted row.  Bulk.tla instantiates it with the scalar methods of the *)
(* converter specification, so its actions ARE these actions; about this   *)
(* module tlaps/C16_Machine.tla PROVES the three clauses of C16 for tables *)
(* of ANY length.                                                          *)
(***************************************************************************)
EXTENDS Naturals, Sequences
CONSTANTS Fails(_, _), Conv(_, _)
VARIABLES disk,     \* table currently in the file
          buf,      \* rows converted so far (in memory)
          pc,       \* "idle" | "reading" | "done" | "failed"
          job       \* a record with (at least) the fields header and rows
mvars == <<disk, buf, pc, job>>

\* the call starts: the file is read into the job (header \o rows is what is on disk); nothing is written
BeginG(j) == /\ pc = "idle" /\ j.header \o j.rows = disk
             /\ job' = j /\ pc' = "reading" /\ buf' = <<>> /\ UNCHANGED disk
\* one row is converted; the file is not touched
StepRowG ==
  /\ pc = "reading" /\ Len(buf) < Len(job.rows)
  /\ LET row == job.rows[Len(buf) + 1] IN
     IF Fails(job, row)
     THEN pc' = "failed" /\ UNCHANGED <<disk, buf, job>>
     ELSE buf' = Append(buf, Conv(job, row)) /\ UNCHANGED <<disk, pc, job>>
\* only after the last row: re-open for writing and write everything
WriteAllG ==
  /\ pc = "reading" /\ Len(buf) = Len(job.rows)
  /\ disk' = job.header \o buf /\ pc' = "done" /\ UNCHANGED <<buf, job>>
=============================================================================
