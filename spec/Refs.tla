-------------------------------- MODULE Refs --------------------------------
(***************************************************************************)
(* Reference value types (api.py:80-166, 357-581, 2987-2994) and the       *)
(* triples reader / writer (triples.py:61-90).                             *)
(* A reference is [cls, p, id, name]; cls in {"tuple", "ref", "namable",   *)
(* "named"}; name is <<>> (None / absent) or <<text>>.                     *)
(***************************************************************************)
EXTENDS Props
Colon == <<58>>
Pydantic == {"ref", "namable", "named"}
Ref(cls, p, id, name) == [cls |-> cls, p |-> p, id |-> id, name |-> name]
HasName(cls) == cls \in {"namable", "named"}

\* .curie -- always rendered with ":" (api.py:148, 442)
Curie(r) == r.p \o Colon \o r.id

\* context converter: <<>> or <<c>>.  With a converter the prefix is standardised, unknown
\* prefixes are rejected (Prefix._validate).
CtxPrefix(ctx, p) == IF ctx = <<>> THEN Val(p)
                     ELSE IF Has(ctx[1].s2p, p) THEN Val(Get(ctx[1].s2p, p)) ELSE Raise("valueerror")
\* building an instance of a pydantic class from fields
Build(cls, p, id, name, ctx) ==
  IF cls = "tuple" THEN Val(Ref("tuple", p, id, <<>>))
  ELSE IF cls = "named" /\ name = <<>> THEN Raise("valueerror")          \* name is required
  ELSE LET q == CtxPrefix(ctx, p) IN
       IF ~IsVal(q) THEN q ELSE Val(Ref(cls, q[2], id, IF HasName(cls) THEN name ELSE <<>>))
\* from_curie(curie, [name,] sep=..., converter=...): split at the FIRST separator
FromCurie(cls, s, sep, name, ctx) ==
  IF ~Contains(s, sep) THEN Raise("valueerror")
  ELSE Build(cls, PartBefore(s, sep), PartAfter(s, sep), name, ctx)
\* model_validate("prefix:identifier"): the string pre-validator splits at ":"
ValidateStr(cls, s, ctx) == IF cls = "named" THEN Raise("valueerror") ELSE FromCurie(cls, s, Colon, <<>>, ctx)

\* from_reference(reference, converter=...): re-validates prefix and identifier, carries the name over when both
\* classes have one; NamedReference refuses a reference that cannot carry a name (TypeError)
FromReference(cls, r, ctx) ==
  IF cls = "named" /\ ~HasName(r.cls) THEN Raise("TypeError")
  ELSE Build(cls, r.p, r.id, IF HasName(r.cls) THEN r.name ELSE <<>>, ctx)

\* equality / hashing / ordering
Eq(a, b) == IF a.cls = "tuple" \/ b.cls = "tuple" THEN a.cls = b.cls /\ a.p = b.p /\ a.id = b.id
            ELSE a.p = b.p /\ a.id = b.id
HashKey(a) == <<a.p, a.id>>
Lt(a, b) == LexLT(a.p, b.p) \/ (a.p = b.p /\ LexLT(a.id, b.id))

\* triples: a row is three CURIE strings; reading parses each with from_curie (sep ":")
ReadBack(row) == [k \in 1..3 |-> FromCurie("ref", row[k], Colon, <<>>, <<>>)]

---------------------------------------------------------------------------
\* C15, declaratively
SepFree(p, sep) == ~Contains(p, sep)
P_C15_roundtrip(r) ==      \* print then parse gives an equal object (prefix without the separator)
  SepFree(r.p, Colon) =>
     LET back == FromCurie(r.cls, Curie(r), Colon, r.name, <<>>) IN
     IsVal(back) /\ Eq(back[2], r) /\ back[2].p = r.p /\ back[2].id = r.id
P_C15_split(cls, s, sep, name) ==
  LET o == FromCurie(cls, s, sep, name, <<>>) IN
  IF ~Contains(s, sep) THEN o[1] = "raise"
  ELSE (cls = "named" /\ name = <<>>) \/ (IsVal(o) /\ o[2].p \o sep \o o[2].id = s /\ SepFree(o[2].p, sep))
P_C15_order(S) ==          \* on a set of references: equivalence, hash coherence, strict total order
  /\ \A a, b \in S : (a.cls \in Pydantic /\ b.cls \in Pydantic) => (Eq(a, b) <=> (a.p = b.p /\ a.id = b.id))
  /\ \A a, b \in S : Eq(a, b) => HashKey(a) = HashKey(b)
  /\ \A a, b \in S : Lt(a, b) <=> (LexLT(a.p, b.p) \/ (a.p = b.p /\ LexLT(a.id, b.id)))      \* THE lexicographic order on the pair
  /\ \A a \in S : ~Lt(a, a)
  /\ \A a, b \in S : (a.p # b.p \/ a.id # b.id) => (Lt(a, b) \/ Lt(b, a)) /\ ~(Lt(a, b) /\ Lt(b, a))
  /\ \A a, b, c \in S : (Lt(a, b) /\ Lt(b, c)) => Lt(a, c)
P_C15_ctx(cls, p, id, name, c) ==
  LET o == Build(cls, p, id, name, <<c>>) IN
  cls \in Pydantic /\ (cls # "named" \/ name # <<>>) =>
     IF p \in KnownP(c) THEN IsVal(o) /\ o[2].p = OwnerP(c, p).p /\ o[2].id = id ELSE o[1] = "raise"
=============================================================================
