------------------------------ MODULE TraceWeb ------------------------------
(***************************************************************************)
(* Batch validator for recorded requests to the resolver (C17) and the     *)
(* mapping service (C18): same scheme as TraceFn.tla.                      *)
(***************************************************************************)
EXTENDS Naturals, Sequences, FiniteSets, TLC, Json, IOUtils

D == JsonDeserialize(IOEnv.TRACE_FILE)
S(i) == D.strs[i]
TFold(ch) == <<ch>>
TInvalid == {D.invalid[i] : i \in 1..Len(D.invalid)}
TSupported == {"application/sparql-results+json", "application/sparql-results+xml", "application/sparql-results+csv"}
TSyn(t) == CASE t \in {"application/json", "text/json"} -> "application/sparql-results+json"
             [] t \in {"application/xml", "text/xml"} -> "application/sparql-results+xml"
             [] t = "text/csv" -> "application/sparql-results+csv"
             [] OTHER -> t
INSTANCE Web WITH FoldMap <- TFold, DefaultDelim <- <<58>>, SlashCh <- 47, InvalidIRI <- TInvalid,
                  Supported <- TSupported, SynonymOf <- TSyn, DefaultType <- "application/sparql-results+xml"

SSet(js) == {S(js[k]) : k \in 1..Len(js)}
JRec(j) == Rec(S(j.p), S(j.u), SSet(j.ps), SSet(j.us), IF Len(j.pat) = 0 THEN <<>> ELSE <<S(j.pat[1])>>)
JMap(m) == {<<S(m[k][1]), S(m[k][2])>> : k \in 1..Len(m)}
JConv(j) == [delim |-> S(j.delim), recs |-> [k \in 1..Len(j.recs) |-> JRec(j.recs[k])], pm |-> JMap(j.pm), s2p |-> JMap(j.s2p),
             rpm |-> JMap(j.rpm), trie |-> JMap(j.trie), pat |-> JMap(j.pat)]
Convs == [k \in 1..Len(D.convs) |-> JConv(D.convs[k])]
RAns(a) == <<a[1], IF Len(a[2]) = 0 THEN <<>> ELSE S(a[2][1])>>      \* <<status, location>>
Header(ps) == [k \in 1..Len(ps) |-> <<ps[k][1], ps[k][2]>>]

CallBad(c) ==
  CASE c.f = "resolve" ->
         LET cv == Convs[c.conv]  p == S(c.p)  id == S(c.id)
             path == <<47>> \o p \o cv.delim \o id
             fl == RAns(c.flask)  fa == RAns(c.fastapi)
             ans(fw) == IF fw = "flask" THEN fl ELSE fa IN
         (IF fl # Resolve(cv, "flask", path) THEN {"web.flask"} ELSE {}) \cup
         (IF fa # Resolve(cv, "fastapi", path) THEN {"web.fastapi"} ELSE {}) \cup
         (IF ~P_C17(cv, p, id, ans) THEN {"mon.C17"} ELSE {})
    [] c.f = "negotiate" ->
         (IF c.got # Negotiate(Header(c.parts)) THEN {"ans.negotiate." \o c.via} ELSE {}) \cup
         (IF ~P_C18_neg(Header(c.parts), c.got) THEN {"mon.C18.neg." \o c.via} ELSE {})
    [] c.f = "map" ->
         LET cv == Convs[c.conv]  got == SSet(c.got) IN
         (IF Len(c.got) # Cardinality(got) THEN {"sparql.duplicates"} ELSE {}) \cup
         (IF got # MappingAnswer(cv, S(c.u), c.configured) THEN {"sparql.bindings"} ELSE {}) \cup
         (IF OneOwner(cv) /\ ~P_C18_answer(cv, S(c.u), c.configured, got) THEN {"mon.C18.answer"} ELSE {})
    [] OTHER -> {"unknown-function"}

Groups == D.groups
VARIABLES g, step
fvars == <<g, step>>
FInit == g \in 1..Len(Groups) /\ step = 0
FNext == step = 0 /\ step' = 1 /\ UNCHANGED g
FSpec == FInit /\ [][FNext]_fvars
Report == step = 1 =>
   /\ \A k \in 1..Len(Groups[g]) : \A b \in CallBad(Groups[g][k]) : PrintT(<<"FAIL", g, k, <<b>>>>)
   /\ PrintT(<<"DONE", g>>)
=============================================================================
