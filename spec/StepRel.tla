------------------------------ MODULE StepRel ------------------------------
(***************************************************************************)
(* add_record as a RELATION between record SETS (and prefix maps), over an *)
(* uninterpreted set of strings: the formulation about which               *)
(* tlaps/C05_Step.tla PROVES, for converters of any size, that one owner   *)
(* per prefix and the freshness of the prefix map are preserved.           *)
(* TLC checks (mc/MC_Incr.tla, Prop_Bridge) that every step of the         *)
(* operational Conv!AddRecord IS such a step: the refinement that carries  *)
(* the theorem over to the specification the traces are validated against. *)
(* Records here have the four name fields only (patterns play no role).    *)
(***************************************************************************)
CONSTANT Fold(_)            \* case folding of a whole string

AllP4(r) == {r.p} \cup r.ps
AllU4(r) == {r.u} \cup r.us
ValidRec4(r) == r.p \notin r.ps /\ r.u \notin r.us
EqCS4(a, b, c) == IF c THEN a = b ELSE Fold(a) = Fold(b)
Matches4(e, r, c) ==
  \/ \E a \in AllP4(e) : \E b \in AllP4(r) : EqCS4(a, b, c)
  \/ \E a \in AllU4(e) : \E b \in AllU4(r) : EqCS4(a, b, c)
OneOwner4(rs) ==
  /\ \A r \in rs : ValidRec4(r)
  /\ \A r1 \in rs : \A r2 \in rs :
        r1 # r2 => (AllP4(r1) \cap AllP4(r2) = {} /\ AllU4(r1) \cap AllU4(r2) = {})
Merged4(r, e) == [p |-> r.p, u |-> r.u, ps |-> r.ps \cup (AllP4(e) \ AllP4(r)), us |-> r.us \cup (AllU4(e) \ AllU4(r))]
\* lookup structures are sets of <<key, value>> pairs; _index overwrites the keys of one record
PutAll4(mp, ks, v) == {kv \in mp : kv[1] \notin ks} \cup {<<k, v>> : k \in ks}
PMOf4(rs) == UNION {{<<x, r.u>> : x \in AllP4(r)} : r \in rs}          \* what the records denote

\* one add_record step: from records rs / prefix map pm to rs2 / pm2
StepRel(rs, pm, e, c, g, rs2, pm2) ==
  LET m == {r \in rs : Matches4(e, r, c)} IN
  IF (\E a \in m : \E b \in m : a # b) \/ (m # {} /\ ~g)
  THEN rs2 = rs /\ pm2 = pm                                           \* rejected: nothing changes
  ELSE IF m # {}
  THEN \E r \in m : /\ rs2 = (rs \ {r}) \cup {Merged4(r, e)}          \* merged into the one matching record ...
                    /\ pm2 = PutAll4(pm, AllP4(Merged4(r, e)), r.u)   \* ... which is indexed again
  ELSE rs2 = rs \cup {e} /\ pm2 = PutAll4(pm, AllP4(e), e.u)           \* appended and indexed
=============================================================================
