------------------------------- MODULE System ------------------------------
(***************************************************************************)
(* The converter world of World.tla together with the FILES it writes and  *)
(* reads: writing is a step of its own (the document is a snapshot of the  *)
(* converter at that moment), reading any file written so far is another,  *)
(* and every World operation may happen in between -- on the source, on    *)
(* the converter read back, on anything derived from either.               *)
(*                                                                         *)
(* What this adds over Writers/MC_IO (round trip of a freshly constructed  *)
(* converter in one step):                                                 *)
(*   - the converters written are ARBITRARY live converters: built         *)
(*     incrementally (merge, case-insensitive adds), chained, restricted,  *)
(*     remapped, rewired, or themselves read from a file;                  *)
(*   - a file is a snapshot: changing the source afterwards does not       *)
(*     change what reading gives;                                          *)
(*   - writing changes no converter and reading changes none but the new   *)
(*     one (C10's frame, extended to the I/O operations).                  *)
(***************************************************************************)
EXTENDS World, Writers

VARIABLE files     \* sequence of [fmt, syn, expand, delim, doc, src, srci]; src = the converter (number srci) as it was when written
svars == <<convs, hist, last, sigs, files>>

SInit == Init /\ files = <<>>

\* a World action, the files untouched
Lift(A) == A /\ UNCHANGED files

\* write_<fmt>(convs[i], path, include_synonyms=syn, expand=expand)
SWrite(i, fmt, syn, expand) ==
  LET c == convs[i] IN
  /\ files' = Append(files, [fmt |-> fmt, syn |-> syn, expand |-> expand, delim |-> c.delim,
                             doc |-> DocOf(fmt, syn, expand, c), src |-> c, srci |-> i])
  /\ hist' = Append(hist, [k |-> "write", i |-> i, fmt |-> fmt, syn |-> syn, expand |-> expand])
  /\ last' = Ok
  /\ sigs' = Append(sigs, <<"write", fmt, syn, expand, \E r \in RecSet(c) : r.ps # {}, \E r \in RecSet(c) : r.us # {},
                            \E r \in RecSet(c) : HasPat(r), <<>> \in KnownP(c), Len(c.recs) = 0>>)
  /\ UNCHANGED convs

\* coverage: another file was written from a record about the same (prefix, URI prefix) that differs only in its pattern /
\* also in its synonyms (anything remembered between two writes shows here)
SiblingPat(j) == \E k \in 1..Len(files) : k # j /\ \E r1 \in RecSet(files[j].src), r2 \in RecSet(files[k].src) :
                    r1.p = r2.p /\ r1.u = r2.u /\ r1.ps = r2.ps /\ r1.us = r2.us /\ r1.pat # r2.pat
SiblingSyn(j) == \E k \in 1..Len(files) : k # j /\ \E r1 \in RecSet(files[j].src), r2 \in RecSet(files[k].src) :
                    r1.p = r2.p /\ r1.u = r2.u /\ (r1.ps # r2.ps \/ r1.us # r2.us)

\* load_<fmt>(path of the j-th file written)
SRead(j) ==
  LET f == files[j]  r == ReadFile(f) IN
  /\ hist' = Append(hist, [k |-> "read", j |-> j])
  /\ last' = OutKind(r.out)
  /\ sigs' = Append(sigs, <<"read", f.fmt, f.syn, OutKind(r.out), convs[f.srci] # f.src,       \* ... the source was modified after writing
                            SiblingPat(j), SiblingSyn(j), j < Len(files)>>)
  /\ convs' = IF r.out = Ok THEN Append(convs, r.conv) ELSE convs
  /\ UNCHANGED files

---------------------------------------------------------------------------
\* C14 along histories: whatever happened between writing and reading, reading gives the converter the
\* property promises for the SOURCE AS IT WAS WHEN WRITTEN
P_C14_sys ==
  [][ (hist'[Len(hist')].k = "read") =>
        LET f == files[hist'[Len(hist')].j] IN
        InC14(f.fmt, f.syn, f.src) =>
          P_C14(f.fmt, f.syn, f.src, [out |-> IF Len(convs') > Len(convs) THEN Ok ELSE last',
                                      conv |-> IF Len(convs') > Len(convs) THEN convs'[Len(convs')] ELSE EmptyConv(DefaultDelim)]) ]_svars

\* files are snapshots: once written a file never changes, and no step but `add` on its target changes a converter
P_Snapshot == [][ \A j \in 1..Len(files) : files'[j] = files[j] ]_svars
P_C10_sys == [][ \A i \in 1..Len(convs) :
                   (i <= Len(convs') /\ convs'[i] # convs[i]) =>
                      (hist'[Len(hist')].k = "add" /\ hist'[Len(hist')].i = i) ]_svars

===========================================================================
