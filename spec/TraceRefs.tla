------------------------------ MODULE TraceRefs -----------------------------
(***************************************************************************)
(* Batch validator for recorded operations on reference values (C15):      *)
(* same scheme as TraceFn.tla.                                             *)
(***************************************************************************)
EXTENDS Naturals, Sequences, FiniteSets, TLC, Json, IOUtils

D == JsonDeserialize(IOEnv.TRACE_FILE)
S(i) == D.strs[i]
FoldTab == D.fold
TFold(ch) == IF \E i \in 1..Len(FoldTab) : FoldTab[i][1] = ch
             THEN FoldTab[CHOOSE i \in 1..Len(FoldTab) : FoldTab[i][1] = ch][2]
             ELSE <<ch>>
INSTANCE Refs WITH FoldMap <- TFold

SSet(js) == {S(js[k]) : k \in 1..Len(js)}
JRec(j) == Rec(S(j.p), S(j.u), SSet(j.ps), SSet(j.us), IF Len(j.pat) = 0 THEN <<>> ELSE <<S(j.pat[1])>>)
JMap(m) == {<<S(m[k][1]), S(m[k][2])>> : k \in 1..Len(m)}
JConv(j) == [delim |-> S(j.delim), recs |-> [k \in 1..Len(j.recs) |-> JRec(j.recs[k])], pm |-> JMap(j.pm), s2p |-> JMap(j.s2p),
             rpm |-> JMap(j.rpm), trie |-> JMap(j.trie), pat |-> JMap(j.pat)]
Convs == [k \in 1..Len(D.convs) |-> JConv(D.convs[k])]
Ctx(i) == IF i = 0 THEN <<>> ELSE <<Convs[i]>>
Name(n) == IF Len(n) = 0 THEN <<>> ELSE <<S(n[1])>>
JRef(j) == Ref(j.cls, S(j.p), S(j.id), Name(j.name))
\* logged outcome ["ok", REF] / ["raise", family, class] against a specification outcome
OutBad(spec, log) ==
  IF spec[1] = "raise" THEN log[1] # "raise" \/ log[2] \notin {"valueerror", "curies"}
  ELSE log[1] # "ok" \/ JRef(log[2]) # spec[2]

CallBad(c) ==
  CASE c.f = "build" ->
         (IF OutBad(Build(c.cls, S(c.p), S(c.id), Name(c.name), Ctx(c.ctx)), c.out) THEN {"out.ref.build"} ELSE {}) \cup
         (IF c.ctx # 0 /\ OneOwner(Convs[c.ctx]) /\ c.cls \in Pydantic /\ (c.cls # "named" \/ Len(c.name) > 0) /\
             (IF S(c.p) \in KnownP(Convs[c.ctx])
              THEN c.out[1] # "ok" \/ S(c.out[2].p) # OwnerP(Convs[c.ctx], S(c.p)).p \/ S(c.out[2].id) # S(c.id)
              ELSE c.out[1] # "raise")
          THEN {"mon.C15.ctx"} ELSE {})
    [] c.f = "from_curie" ->
         LET s == S(c.s)  sep == S(c.sep) IN
         (IF OutBad(FromCurie(c.cls, s, sep, Name(c.name), Ctx(c.ctx)), c.out) THEN {"out.ref.from_curie"} ELSE {}) \cup
         (IF c.ctx = 0 /\ (IF ~Contains(s, sep) THEN c.out[1] # "raise"
                          ELSE ~((c.cls = "named" /\ Len(c.name) = 0) \/
                                 (c.out[1] = "ok" /\ S(c.out[2].p) \o sep \o S(c.out[2].id) = s /\ SepFree(S(c.out[2].p), sep))))
          THEN {"mon.C15.split"} ELSE {}) \cup
         \* "unknown prefixes are rejected with a VALIDATION error": with a context converter, a well-formed CURIE whose prefix
         \* the converter does not know raises pydantic's ValidationError, through every pydantic class alike
         (IF c.ctx # 0 /\ c.cls \in Pydantic /\ Contains(s, sep) /\ (c.cls # "named" \/ Len(c.name) > 0)
             /\ PartBefore(s, sep) \notin KnownP(Convs[c.ctx])
             /\ ~(c.out[1] = "raise" /\ c.out[3] = "ValidationError")
          THEN {"mon.C15.ctx_validation_error"} ELSE {})
    [] c.f = "from_reference" ->
         LET spec == FromReference(c.cls, JRef(c.ref), Ctx(c.ctx)) IN
         (IF (IF spec = Raise("TypeError") THEN c.out[1] # "raise" \/ c.out[3] # "TypeError" ELSE OutBad(spec, c.out))
          THEN {"out.ref.from_reference"} ELSE {})
    [] c.f = "validate_str" ->
         (IF OutBad(ValidateStr(c.cls, S(c.s), Ctx(c.ctx)), c.out) THEN {"out.ref.validate_str"} ELSE {})
    [] c.f = "curie" ->
         (IF S(c.out) # Curie(JRef(c.ref)) THEN {"out.ref.curie"} ELSE {})
    [] c.f = "roundtrip" ->          \* print, then parse back with the class's from_curie (logged outcome)
         LET r == JRef(c.ref) IN
         (IF SepFree(r.p, Colon) /\ (c.out[1] # "ok" \/ ~Eq(JRef(c.out[2]), r) \/ JRef(c.out[2]).p # r.p \/ JRef(c.out[2]).id # r.id \/ ~c.eq)
          THEN {"mon.C15.roundtrip." \o c.via} ELSE {})
    [] c.f = "cmp" ->
         LET a == JRef(c.a)  b == JRef(c.b) IN
         (IF c.eq # Eq(a, b) THEN {"out.ref.eq"} ELSE {}) \cup
         (IF Eq(a, b) /\ ~c.hasheq THEN {"out.ref.hash"} ELSE {}) \cup
         (IF (a.cls = "tuple") = (b.cls = "tuple") /\ c.lt # <<"val", Lt(a, b)>> THEN {"out.ref.lt"} ELSE {}) \cup
         (IF a.cls \in Pydantic /\ b.cls \in Pydantic /\ (c.eq # (a.p = b.p /\ a.id = b.id)) THEN {"mon.C15.eq"} ELSE {})
    [] c.f = "setattr" ->
         (IF c.out # "raise" \/ JRef(c.after) # JRef(c.ref) THEN {"out.ref.setattr"} ELSE {})
    [] c.f = "triples" ->
         LET want == [k \in 1..Len(c.rows) |-> ReadBack([j \in 1..3 |-> S(c.rows[k][j])])] IN
         (IF c.out[1] # "ok" \/ Len(c.out[2]) # Len(c.rows) THEN {"post.triples.shape"}
          ELSE IF \E k \in 1..Len(c.rows) : \E j \in 1..3 :
                    ~IsVal(want[k][j]) \/ ~Eq(JRef(c.out[2][k][j]), want[k][j][2])
               THEN {"post.triples_roundtrip"} ELSE {})
    [] OTHER -> {"unknown-function"}

Groups == D.groups
VARIABLES g, step
fvars == <<g, step>>
FInit == g \in 1..Len(Groups) /\ step = 0
FNext == step = 0 /\ step' = 1 /\ UNCHANGED g
FSpec == FInit /\ [][FNext]_fvars
Report == step = 1 =>
   /\ \A k \in 1..Len(Groups[g]) : \A b \in CallBad(Groups[g][k]) : PrintT(<<"FAIL", g, k, <<b>>>>)
   /\ PrintT(<<"DONE", g>>)
=============================================================================
