"""pytest plugin: run the REPOSITORY'S OWN test-suite with every `curies.Converter` wrapped by a recorder,
and write what the tests did as traces for spec/Trace.tla.

The tests' assertions are weak; their executions are rich.  Each Converter instance becomes one trace:
  new(records, delimiter)  ->  [probe rows: every top-level query call with its outcome]*  ->  add(...)  -> ...
The wrappers only observe (they call the original method and log arguments + outcome at top level).
Only exact `Converter` instances built in strict mode are recorded (subclasses may redefine semantics).

Use:  VERIF_REC_OUT=<file> PYTHONPATH=/verif/harness:<src> pytest -p pytest_record_plugin tests
"""
from __future__ import annotations

import json
import os
import threading

import impl  # sets sys.path to the implementation under test
from curies import api as _api

_state = threading.local()
_I = impl.Interner()
_traces = {}      # id(converter) -> {"events": [...], "pending": [...], "obj": converter}
_order = []
MAX_TRACES = int(os.environ.get("VERIF_REC_MAX", "400"))
MAX_ROWS = 400


def _depth():
    return getattr(_state, "depth", 0)


class _Top:
    def __enter__(self):
        _state.depth = _depth() + 1
        return _state.depth == 1

    def __exit__(self, *a):
        _state.depth -= 1


def _rec_arg(r):
    return {"p": _I(r.prefix), "u": _I(r.uri_prefix), "ps": [_I(x) for x in r.prefix_synonyms],
            "us": [_I(x) for x in r.uri_prefix_synonyms], "pat": [] if r.pattern is None else [_I(r.pattern)]}


def _flush(t):
    if t["pending"]:
        t["events"].append({"op": {"k": "probe"}, "out": ["ok"], "convs": [impl.proj_conv(_I, t["obj"])], "pt": t["pending"][:MAX_ROWS],
                            "ppt": t["ppending"][:MAX_ROWS]})
        t["pending"], t["ppending"] = [], []


def _wrap_init(orig):
    def __init__(self, records, *, delimiter=":", strict=True):
        with _Top() as top:
            if not top or type(self) is not _api.Converter or not strict or len(_order) >= MAX_TRACES:
                return orig(self, records, delimiter=delimiter, strict=strict)
            recs = list(records)
            op = {"k": "new", "recs": [_rec_arg(r) for r in recs], "delim": _I(delimiter), "strict": True}
            try:
                orig(self, recs, delimiter=delimiter, strict=strict)
            except BaseException as e:  # noqa: BLE001
                out = impl.enc_exc(e)
                dups = getattr(e, "duplicates", None)
                if dups is not None:
                    out.append([[impl.proj_record(_I, d.record_1), impl.proj_record(_I, d.record_2), _I(d.prefix)] for d in dups])
                _traces[("fail", len(_order))] = {"events": [{"op": op, "out": out, "convs": [], "pt": [], "ppt": []}], "pending": [], "ppending": [], "obj": None}
                _order.append(("fail", len(_order)))
                raise
            t = {"events": [{"op": op, "out": ["ok"], "convs": [impl.proj_conv(_I, self)], "pt": [], "ppt": []}], "pending": [], "ppending": [], "obj": self}
            _traces[id(self)] = t
            _order.append(id(self))
    return __init__


def _wrap_add_record(orig):
    def add_record(self, record, case_sensitive=True, merge=False):
        with _Top() as top:
            t = _traces.get(id(self)) if top else None
            if t is None or t["obj"] is not self:
                return orig(self, record, case_sensitive=case_sensitive, merge=merge)
            _flush(t)
            op = {"k": "add", "i": 1, "rec": _rec_arg(record), "cs": bool(case_sensitive), "mg": bool(merge), "via": "record"}
            try:
                res = orig(self, record, case_sensitive=case_sensitive, merge=merge)
                out = ["ok"]
                return res
            except BaseException as e:  # noqa: BLE001
                out = impl.enc_exc(e)
                raise
            finally:
                t["events"].append({"op": op, "out": out, "convs": [impl.proj_conv(_I, self)], "pt": [], "ppt": []})
    return add_record


def _suffix(kw, name):
    s, p = bool(kw.get("strict", False)), bool(kw.get("passthrough", False))
    if name == "parse_uri":
        if s:
            return "@s"
        return "" if kw.get("return_none", False) else "@l"
    if name in impl.NOMODE:
        return ""
    if name in impl.STRICT_ONLY or name == "expand_pair_all":
        return "@s" if s else ""
    return "@sp" if s and p else "@s" if s else "@p" if p else ""


def _wrap_str(name, orig):
    def method(self, x, **kw):
        with _Top() as top:
            t = _traces.get(id(self)) if top else None
            if t is None or t["obj"] is not self or not isinstance(x, str) or len(t["pending"]) >= MAX_ROWS:
                return orig(self, x, **kw)
            try:
                res = orig(self, x, **kw)
                out = impl.enc_val(_I, res)
                return res
            except BaseException as e:  # noqa: BLE001
                out = impl.enc_exc(e)
                raise
            finally:
                t["pending"].append({"i": 1, "x": _I(x), "b": False, "f": False, "a": {name + _suffix(kw, name): out}})
    return method


def _wrap_pair(name, orig):
    def method(self, p, ident, **kw):
        with _Top() as top:
            t = _traces.get(id(self)) if top else None
            if t is None or t["obj"] is not self or not isinstance(p, str) or not isinstance(ident, str) or len(t["ppending"]) >= MAX_ROWS:
                return orig(self, p, ident, **kw)
            try:
                res = orig(self, p, ident, **kw)
                out = impl.enc_val(_I, res)
                return res
            except BaseException as e:  # noqa: BLE001
                out = impl.enc_exc(e)
                raise
            finally:
                t["ppending"].append({"i": 1, "p": _I(p), "id": _I(ident), "f": False, "a": {name + _suffix(kw, name): out}})
    return method


_fn_calls = []      # (function name, args, kwargs, result) of the pure functions the tests call


def _wrap_fn(mod, name):
    orig = getattr(mod, name)

    def f(*a, **kw):
        with _Top() as top:
            res = orig(*a, **kw)
            if top and len(_fn_calls) < 5000:
                _fn_calls.append((name, a, kw, res))
            return res
    f.__name__ = name
    f.__doc__ = orig.__doc__
    setattr(mod, name, f)
    return f


def pytest_configure(config):
    import curies
    from curies import discovery as _disc
    from curies import w3c as _w3c
    for nm in ("is_w3c_prefix", "is_w3c_curie"):
        f = _wrap_fn(_w3c, nm)
    f = _wrap_fn(_disc, "discover")
    curies.discover = f
    C = _api.Converter
    C.__init__ = _wrap_init(C.__init__)
    C.add_record = _wrap_add_record(C.add_record)
    for name in impl.STR_CALLS:
        setattr(C, name, _wrap_str(name, getattr(C, name)))
    for name in ("expand_pair", "expand_pair_all", "format_curie"):
        setattr(C, name, _wrap_pair(name, getattr(C, name)))


def pytest_sessionfinish(session, exitstatus):
    out = os.environ.get("VERIF_REC_OUT")
    if not out:
        return
    traces = []
    for key in _order:
        t = _traces[key]
        if t["obj"] is not None:
            _flush(t)
        traces.append(t["events"])
    batch = impl.batch_json(_I, traces, [])
    with open(out, "w") as f:
        json.dump(batch, f, separators=(",", ":"))
    # the pure-function calls, in a form the checks of C19 / C20 turn into TraceFn batches
    fn = []
    raw = lambda v: v if isinstance(v, str) else str(v)  # noqa: E731
    for name, a, kw, res in _fn_calls:
        if name.startswith("is_w3c") and a and isinstance(a[0], str):
            fn.append({"f": name, "x": a[0], "out": bool(res)})
        elif name == "discover" and isinstance(res, _api.Converter) and a and isinstance(a[0], (list, tuple, set, frozenset)):
            conv = kw.get("converter")
            fn.append({"f": "discover", "uris": sorted(a[0]) if isinstance(a[0], (set, frozenset)) else list(a[0]),
                       "delims": list(kw["delimiters"]) if kw.get("delimiters") else None, "cutoff": kw.get("cutoff"), "meta": kw.get("metaprefix"),
                       "conv": None if conv is None else impl.proj_conv(raw, conv), "result": impl.proj_conv(raw, res)})
    with open(out + ".fn.json", "w") as f:
        json.dump(fn, f)
