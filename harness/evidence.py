"""Evidence files (schema: /root/.vp/EVIDENCE.schema.json)."""
from __future__ import annotations

import json
import os

VERIF = os.path.dirname(os.path.dirname(os.path.abspath(__file__)))


def write(pid, tier, seed, level, coverage, wall, violations, assumptions):
    edir = os.environ.get("VERIF_EVIDENCE_DIR") or os.path.join(VERIF, "evidence")   # self-tests redirect it
    os.makedirs(edir, exist_ok=True)
    doc = {"property_id": pid, "tier": tier, "seed": int(seed), "level": level, "coverage": coverage,
           "assumptions": assumptions, "wall_s": round(wall, 2), "violations": int(violations)}
    path = os.path.join(edir, f"{pid}.json")
    tmp = path + ".tmp"
    with open(tmp, "w") as f:
        json.dump(doc, f, indent=1, ensure_ascii=False)
    os.replace(tmp, path)
    return path
