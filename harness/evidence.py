"""Evidence files (schema: /root/.vp/EVIDENCE.schema.json)."""
from __future__ import annotations

import json
import os

VERIF = os.path.dirname(os.path.dirname(os.path.abspath(__file__)))


def write(pid, tier, seed, level, coverage, wall, violations, assumptions):
    os.makedirs(os.path.join(VERIF, "evidence"), exist_ok=True)
    doc = {"property_id": pid, "tier": tier, "seed": int(seed), "level": level, "coverage": coverage,
           "assumptions": assumptions, "wall_s": round(wall, 2), "violations": int(violations)}
    path = os.path.join(VERIF, "evidence", f"{pid}.json")
    tmp = path + ".tmp"
    with open(tmp, "w") as f:
        json.dump(doc, f, indent=1, ensure_ascii=False)
    os.replace(tmp, path)
    return path
