"""vcheck replay <file>: re-execute a replay file on the implementation and re-validate it with TLC."""
from __future__ import annotations

import json

import tlc


def main(path):
    with open(path) as f:
        r = json.load(f)
    pid, fam = r["property"], r["family"]
    print(f"replaying {path}: property {pid}, family {fam}, clause {r['clause']}")
    if fam == "world":
        import checks_world
        import world
        if r["ops"] and r["ops"][0].get("k") == "repo-test-trace":
            rb, passed = world.repo_test_traces({pid})
            fails, st = tlc.validate_traces(rb)
            mine = [(t, l, c) for (t, l, c) in fails if pid in checks_world.clause_tags(c) or (pid == "C05" and c[0] == "ans")]
            for t, l, c in mine[:20]:
                print(f"  repository-test trace {t}, event {l}: clause {'/'.join(c)}: {json.dumps(rb['traces'][t - 1]['events'][l - 1]['op'])[:200]}")
            if mine:
                print(f"VIOLATION property={pid} replay={path}")
                return 1
            print("the violation does not reproduce on the current tree")
            return 0
        res = world.run_ops((r["ops"], r["seed"], r["opts"]))
        batch = world.merge_batches([res], {pid})
        fails, st = tlc.validate_traces(batch)
        mine = [(l, c) for (_t, l, c) in fails if pid in checks_world.clause_tags(c) or (pid == "C05" and c[0] == "ans")]
        for k, op in enumerate(r["ops"], 1):
            print(f"  op {k}: {json.dumps(op, ensure_ascii=False)[:300]}")
        for l, c in fails:
            print(f"  event {l}: clause {'/'.join(c)}" + ("   <-- " + pid if (l, c) in mine else ""))
        if mine:
            print(f"VIOLATION property={pid} replay={path}")
            return 1
        print("the violation does not reproduce on the current tree")
        return 0
    # the other families: re-run the recorded case through the family's recorder
    import checks_other as co
    case = r["case"]
    print("  case:", json.dumps(case, ensure_ascii=False)[:1500])
    if fam == "w3c":
        import impl  # noqa: F401
        from curies import w3c
        calls = co.Calls({pid})
        fn = getattr(w3c, case["f"])
        out = fn(case["x"])
        calls.add({"f": case["f"], "x": calls.I(case["x"]), "out": out}, dict(case, out=out))
        batch, group = calls.batch(10)
        fails, _ = tlc.validate_calls(batch)
    elif fam == "discover":
        calls = co.Calls({pid})
        co.discover_call(calls, case["uris"], case["delims"], case["cutoff"], case["meta"], case["pre"], case.get("iterable", "list"))
        batch, group = calls.batch(10)
        fails, _ = tlc.validate_calls(batch)
        fails = [f for f in fails if not co.findings.match(pid, {"clause": f[2], **calls.meta[0]})]
    elif fam == "hook":
        import checks_world
        res = checks_world.hook_part(0, pid=pid)
        for line in res["lines"]:
            print(line)
        if not res["violations"]:
            print("the violation does not reproduce on the current tree")
        return 1 if res["violations"] else 0
    else:
        print(f"  (family {fam}: re-running the quick check of {pid}, which regenerates this case from the same seed)")
        res = co.check(pid, "quick", 0)
        for line in res["lines"]:
            print(line)
        return 1 if res["violations"] else 0
    for g, k, c in fails:
        print(f"  clause {'/'.join(c)}")
    if fails:
        print(f"VIOLATION property={pid} replay={path}")
        return 1
    print("the violation does not reproduce on the current tree")
    return 0
