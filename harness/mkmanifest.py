"""Regenerate /verif/MANIFEST.json from the table below (single source for commands)."""
import json
import os

VERIF = os.path.dirname(os.path.dirname(os.path.abspath(__file__)))
PY = "/venv/bin/python"

CHECKS = {
 "C01": ("MC_Query + MC_Incr", "longest-URI-prefix rule stated over records vs trie lookup; every strict converter of <=2 records over nested/empty/ambiguous pools x every probe string <=3 (TLC, exhaustive), behaviours replayed on the code in several construction orders incl. incremental building, answers validated against the spec by TLC"),
 "C02": ("MC_Query", "expansion through any prefix/synonym incl. the empty prefix and multi-character delimiters; expand/expand_pair/expand_reference/expand_all/expand_pair_all compared with the spec and with the declarative statement on logged answers"),
 "C03": ("MC_Query", "round-trip laws between compress, expand, expand_all, standardize_* evaluated on logged answers (closure strings are probed too); prefix-free and non-prefix-free maps both occur"),
 "C04": ("MC_Build", "every sequence (all orders, repetitions) of <=3 clash-rich records through the strict constructor and the loaders: outcome class, reported clash pairs, bimap inverse, one owner"),
 "C05": ("MC_Incr", "every history of <=3 add_record calls x 4 flag combinations (narrow pools, deep) and every single add over all one-synonym records (wide, shallow); step law as TLC action property; a TLAPS proof (no bound on sizes or strings) that one add_record step preserves one-owner-per-prefix and the freshness of the prefix map, bridged to the operational specification by a refinement property checked by TLC; an Apalache inductive step over UNBOUNDED strings; behaviours selected by the specification's branch signatures and replayed with a fresh construction after every step; five indexes compared one by one"),
 "C06": ("MC_Query", "standardize_prefix/curie/uri canonical, idempotent, meaning-preserving: declarative formulas on logged answers"),
 "C07": ("MC_Query + MC_Hook", "derived operations vs the two primitive parsers, incl. strings that are both CURIE and URI (pool contains the URI prefix 'a:' and the CURIE prefix 'a'); converters whose class overrides the documented standardize_identifier hook (spec/Hooked.tla: the hook as an environment function given by its graph; every converter x hook graph of six shapes x probe string in MC_Hook; on the code five subclasses, the observed graph of the hook logged with every call and validated by TraceHook.tla)"),
 "C08": ("MC_Query", "whole strict x passthrough matrix of the 14 functions: mode laws on logged outcomes incl. exception family"),
 "C09": ("MC_Derive", "chain (both case modes, both orders) and get_subconverter (every prefix subset) over all pairs of base converters (incl. a later record bridging two earlier ones): union, grouping, priority, case-fold separation, restriction; TLAPS proofs (no bound) of the chain laws for one step of the fold; an Apalache inductive check of one chain step over UNBOUNDED strings"),
 "C10": ("MC_Derive + MC_Remap + MC_System", "frame condition as TLC action property (P_C10, and P_C10_sys for the steps that write and read files); after EVERY step the projection of EVERY live converter is compared with its previous one (all six derivations, follow-up merging adds on the derived converter, long tlc -simulate behaviours deriving from derived converters)"),
 "C11": ("MC_Remap", "every partial map over 4 names x every strict converter of <=2 records with <=1 synonym: documented errors, no prefix lost, URI side untouched"),
 "C12": ("MC_Derive", "every injective map (<=1 pair quick, <=2 thorough) for remap_uri_prefixes and rewire on one- and two-record converters; a TLAPS proof of C12 for converters of any size (per-record laws, strictness of the result) bridged to the operational specification by a refinement property checked by TLC; an Apalache check of the declarative statement over UNBOUNDED strings; rewire applied twice for idempotence"),
 "C13": ("MC_Build", "every small prefix map / priority map / reverse map / JSON-LD context / non-bijective map for upgrade_prefix_map, all dictionary orders; loading via object, str path and Path"),
 "C14": ("MC_IO + MC_System", "C14 along histories (spec/System.tla: files as state, write and read as separate steps, the file a snapshot of the source; P_C14_sys / P_Snapshot checked by TLC, behaviours with real files -- converters built incrementally, merged, chained, remapped, then written, changed and read back; twin converters written one after the other -- validated event by event); every strict converter of <=2 records over hazard classes {plain, backslash, non-ASCII, space} with synonym and pattern, every format x flags, at the level of what the file denotes; the real writers/readers are run over hazard alphabets per format (EPM: arbitrary Unicode incl. control characters and quotes; JSON-LD; SHACL/TSV: printable without quote/angle brackets) and the read-back converter is compared with the predicted one"),
 "C16": ("MC_Bulk", "a TLAPS proof (tables of any length) of atomicity, result and fault position for the step machine that Bulk.tla instantiates; the file helper as a step machine (read+convert all rows, then write): every table <=2 (thorough 3) rows x cell pool x header x column x strict/passthrough/ambiguous, fault at each row position (reachability checked); recorded executions (one event per cell conversion with the file's bytes compared at that moment) must be behaviours of the machine; data-frame variants element-wise"),
 "C15": ("MC_Refs", "every heap of <=2 (thorough 3) references built through every constructor over prefixes {'', a, A}, identifiers with and without separators, names, 1- and 2-character separators, with/without a context converter: parse-print inverse, split-at-first, equivalence/hash/order laws; replayed on the four classes incl. JSON, immutability, triples files (plain and gzip)"),
 "C17": ("MC_Web", "every request path <=7 (thorough 9) characters over {x, y, ':', '/'} against colon- and slash-delimited converters: framework routing (greedy prefix) + re-split at the first delimiter = expand_pair; each request is sent to the Flask and the FastAPI app in-process"),
 "C18": ("MC_Web", "every Accept header of <=3 (thorough 4) parts over supported/synonym/unsupported types x 3 q-values (16 optional-whitespace renderings when replayed); every URI <=5 characters against a converter with an IRI-invalid synonym; SPARQL answers for both directions, both VALUES placements, graph.query with/without the custom processor, Flask GET/POST"),
 "C19": ("MC_Discover", "every sequence (order, repetition) of <=2 URIs over {alnum, /, #, _, github head, issues} x delimiter lists x cutoffs x metaprefix x pre-existing converter; rotations/duplications give the same converter; calls replayed with list/set/generator/tuple iterables; the discover calls of the repository's own tests are validated too"),
 "C20": ("MC_W3C", "every string <=4 (thorough 5) over one representative per character class: operational recognisers (regex alternatives, full match) = declarative grammar; all of them replayed under two representative sets plus random longer strings; the calls the repository's own tests make are validated too"),
}


def main():
    checks = []
    for pid, (model, text) in CHECKS.items():
        checks.append({
            "property_id": pid,
            "quick_cmd": f"{PY} harness/vcheck check {pid} --tier quick",
            "thorough_cmd": f"{PY} harness/vcheck check {pid} --tier thorough",
            "evidence_file": f"/verif/evidence/{pid}.json",
            "replay_cmd_template": f"{PY} harness/vcheck replay {{path}}",
            "engine": "tlc",
            "level_claimed": {"category": "model_checking", "design_ref": "DESIGN.md §6 " + pid,
                              "text": f"TLC checks the declarative statement against the operational specification on the bounded model {model} ({text}); "
                                      "TLC-generated behaviours (chosen so that every branch signature of the specification is represented), seeded random behaviours beyond the bounds "
                                      "and, where it applies, the repository's own tests run under a recorder are executed on /repo/src and every recorded "
                                      "trace is validated against the same specification (conformance of outcome, post-state and answers; property monitors on logged values)."},
            "level_note": "bounded (constants in the evidence file); trusts TLC, the CommunityModules JSON reader, Python's str.casefold and the recorder's projection of public attributes; spec models the behaviour after the fix: commits listed in known_findings.json",
            "technique": "TLA+ specification model-checked with TLC + spec-to-code replay + trace validation against the spec"
                         + (" + TLAPS proof (no bound) bridged by a TLC-checked refinement" if pid in ("C05", "C09", "C12", "C16") else "")
                         + (" + Apalache symbolic check (unbounded strings)" if pid in ("C05", "C09", "C12") else ""),
        })
    props = [json.loads(l)["id"] for l in open(os.path.join(VERIF, "properties.jsonl"))]
    na = [{"property_id": p, "reason": "check under construction in this round (not yet bound to the implementation)"}
          for p in props if p not in CHECKS]
    m = {
        "version": 1,
        "setup_cmd": f"{PY} harness/vcheck setup",
        "hooks": {"guard": "CURIES_VERIF", "enable": "no source hooks are needed: the library is sequential, the linearisation point of every action is the return of a public call and the abstract state is readable through public attributes; checks import /repo/src directly (CURIES_SRC overrides the path for self-tests)",
                  "baseline_off_cmd": "cd /repo && /venv/bin/python -m pytest -ra -q -p no:cacheprovider --timeout=900 --continue-on-collection-errors",
                  "source_commits": [], "add_only": True},
        "engines": [{"name": "tlc", "path": "/opt/veriftools/tla/tla2tools.jar", "serves_properties": sorted(CHECKS),
                     "kind_free_text": "explicit-state model checker for the TLA+ specification in /verif/spec; also the batch trace validator (spec/Trace*.tla)"},
                    {"name": "tlapm", "path": "/usr/local/bin/tlapm", "serves_properties": ["C05", "C09", "C12", "C16"],
                     "kind_free_text": "TLA+ proof system: the proofs in spec/tlaps (no bound on sizes or strings) about StepRel / RepointRel / BulkMachine, bridged to the operational specification by refinement properties that TLC checks; an addition to the TLC-based decision, recorded as 'not run' if the tool is missing"},
                    {"name": "apalache", "path": "/usr/local/bin/apalache-mc", "serves_properties": ["C05", "C09", "C12"],
                     "kind_free_text": "symbolic model checker: inductive / one-step obligations in spec/apalache over unbounded strings and bounded sizes; an addition to the TLC-based decision, not relied upon (a timeout is recorded, not failed)"}],
        "checks": checks,
        "not_applicable": na,
        "notes": "exit codes: 0 held (KNOWN-FINDING lines possible), 1 VIOLATION, 2 machinery failure. VERIF_SEED and VERIF_TIER are honoured.",
    }
    # all twenty properties are claimed: the list is kept, empty
    with open(os.path.join(VERIF, "MANIFEST.json"), "w") as f:
        json.dump(m, f, indent=1)


if __name__ == "__main__":
    main()
