"""Per-property drivers and verdicts for C01..C13."""
from __future__ import annotations

import itertools
import json
import os
import random
import time

import findings
import tlc
import world
from tlc import MachineryError

METHOD_PROP = {
    "parse_uri": "C01", "compress": "C01", "is_uri": "C01",
    "parse_curie": "C02", "expand": "C02", "expand_all": "C02", "is_curie": "C02",
    "expand_pair": "C02", "expand_reference": "C02", "expand_pair_all": "C02",
    "standardize_prefix": "C06", "standardize_curie": "C06", "standardize_uri": "C06",
    "parse": "C07", "compress_or_standardize": "C07", "expand_or_standardize": "C07",
    "compress_strict": "C07", "expand_strict": "C07", "format_curie": "C07",
}
OP_PROP = {"discover": None, "new": "C04", "mkrec": "C04", "add": "C05", "chain": "C09", "sub": "C09", "remap_curie": "C11",
           "remap_uri": "C12", "rewire": "C12", "load": "C13", "upgrade": "C13", "probe": None,
           "write": "C14", "read": "C14"}


def clause_tags(clause):
    kind = clause[0]
    if kind == "mon":
        return {clause[1][:3]}
    if kind == "ans":
        m, _, suf = clause[1].partition("@")
        if suf:
            return {"C08"}
        # compress_strict / expand_strict are the strict spellings of compress / expand: their answers also count for the
        # properties that speak about compress / expand
        extra = {"compress_strict": {"C01", "C03"}, "expand_strict": {"C02", "C03"}}.get(m, set())
        return {METHOD_PROP[m]} | extra
    if kind in ("out", "post", "nconv", "dups"):
        t = OP_PROP.get(clause[1])
        if clause[1] == "load" and kind in ("out", "nconv", "dups"):
            return {"C13", "C04"}       # whether a loader accepts or rejects its input is strict construction (C04) too
        return {t} if t else set()
    if kind == "frame":
        return {"C10"}
    if kind == "views":
        # bimap / reverse_bimap / get_prefixes / get_uri_prefixes must agree with the records: after construction (C04),
        # after every incremental step (C05) and for every input of a derivation (C10)
        return {"C04", "C05", "C10"}
    return set()


STRATA = {}
HIST_FACTOR = {"C05": 2.5, "C09": 1.5, "C10": 1.5, "C11": 3, "C12": 2}     # cheap traces, many specification branches
QUERY_PROPS = {"C01", "C02", "C03", "C06", "C07", "C08"}
LIGHT = ["compress", "expand", "standardize_prefix", "parse_uri"]
METHODS = {
    "C01": ["parse_uri", "compress", "is_uri", "compress_strict"],
    "C02": ["parse_curie", "expand", "expand_all", "is_curie", "expand_pair", "expand_reference", "expand_pair_all", "expand_strict"],
    "C03": ["compress", "expand", "expand_all", "standardize_uri", "standardize_curie", "compress_strict", "expand_strict"],
    "C06": ["standardize_prefix", "standardize_curie", "standardize_uri", "expand", "compress"],
    "C07": None, "C08": None,
    "C04": LIGHT, "C05": LIGHT + ["expand_all", "standardize_uri"], "C09": LIGHT, "C10": LIGHT + ["expand_all", "is_curie", "is_uri"],
    "C11": LIGHT, "C12": LIGHT + ["expand_all"], "C13": LIGHT,
}

# ---------------------------------------------------------------------------
# random material beyond the model bounds

P_ATOMS = ["a", "A", "go", "GO", "Go", "ß", "ss", "SS", "x.y", "p-q", "_", "é", "É", "chebi", "CHEBI", "\U0001d4b3", "obo", "n1", "ǅ", "ǆ"]
U_ROOTS = ["http://e.org/", "https://e.org/", "http://E.org/", "urn:x:", "", "http://purl.obolibrary.org/obo/", "é://", "a", "http://e.org"]
U_STEPS = ["a", "A", "b", "GO_", "go_", "/", "#", "_", "1", "é", "ß", "ss", ":", "a/b", " ", "?id="]
DELIMS = [":", ":", ":", "::", "/", "|", "_", "-:"]
IDENTS = ["", "1", "0001", "a/b", "x#y", "a b", ":", "::z", "é", "1:2", "http://e.org/"]


# hazard pools (used by hazard_oplists, a SEPARATE random stream appended to the behaviours above): strings that are
# not in Unicode normal form C, characters whose lower / upper / casefold forms differ in unusual ways, invisible
# characters, leading / trailing white space, characters outside the BMP
HAZ_P_ATOMS = ["e\u0301", "\u00e9", "E\u0301", "\u212b", "\u00c5", "\u2126", "\u03a9", "\u212a", "k", "K", "\u017f", "s", "S", "\u0131", "\u0130", "i", "I",
               "\u039f\u0394\u039f\u03a3", "\u03bf\u03b4\u03bf\u03c2", "\u03bf\u03b4\u03bf\u03c3", "\ufb01", "fi", "FI", "stra\u00dfe", "STRASSE", "strasse", "Stra\u1e9ee",
               "GO ", " GO", "GO", "GO\u00a0", "go\n", "a\u200cb", "a\u200db", "ab", "a\u00adb", "\U0002f800", "\u4e3d", "\u1100\u1161", "\uac00", "\u0149", "\u02bcn",
               "id", "\u0131d", "ID", "\u0130d", "\U0001d4b3", "x.y"]
HAZ_U_ROOTS = ["http://e.org/", "https://e.org/", "http://E.org/", "", "http://e.org/cafe\u0301/", "http://e.org/caf\u00e9/", "http://e.org/\u212a/", "http://e.org/K/", "http://e.org/k/",
               "http://e.org/ma\u00dfe/", "http://e.org/MASSE/", "http://e.org/entity/Q", "http://e.org/entity/P", "http://e.org/entity/", "http://e.org/x?id=", "http://e.org/x?id=CHEBI:",
               "http://e.org/a.b/", "http://e.org/a+b/", "http://e.org/(a)/", "http://e.org/[a]/"]
HAZ_U_STEPS = ["a", "A", "e\u0301", "\u00e9", "\u212a", "K", "k", "\u017f", "s", "\u0131", "i", "\u03c2", "\u03c3", "\u03a3", "\ufb01", "fi", "\u00df", "ss", "/", "#", "_", ":", "=",
               "?", "+", ".", "(", ")", "[", "*", " ", "\n", "\u200c", "\u00ad", "\U0002f800", "1", "Q", "P"]
HAZ_IDENTS = ["", "1", "e\u0301", "\u00e9", "\u212b", "\u212a", "\U0002f800", "\u1100\u1161", "x\n", "a\u200cb", " 1", "1 ", "a/b", "Q42", "P31", ":", "::z", "0" * 40, "a" * 33 + ":b"]


def rand_uri_prefix(rng):
    s = rng.choice(U_ROOTS)
    for _ in range(rng.randrange(0, 4)):
        s += rng.choice(U_STEPS)
    return s


def rand_prefix(rng, delim):
    for _ in range(20):
        p = rng.choice(P_ATOMS)
        if rng.random() < 0.15:
            p += rng.choice(P_ATOMS)
        if rng.random() < 0.06:
            p = ""
        if delim not in p:
            return p
    return "zz"


def rand_record(rng, delim, upool=None, ppool=None, maxsyn=2, pattern=False):
    def up():
        return rng.choice(upool) if upool and rng.random() < 0.7 else rand_uri_prefix(rng)

    def pp():
        return rng.choice(ppool) if ppool and rng.random() < 0.7 else rand_prefix(rng, delim)
    p, u = pp(), up()
    ps = sorted({pp() for _ in range(rng.randrange(0, maxsyn + 1))} - {p})
    us = sorted({up() for _ in range(rng.randrange(0, maxsyn + 1))} - {u})
    pat = None
    if pattern and rng.random() < 0.3:
        pat = rng.choice([r"^\d{7}$", r"^[A-Z]+\d+$", r"^\w+$"])
    return {"p": p, "u": u, "ps": ps, "us": us, "pat": pat}


def strict_set(rng, delim, n, **kw):
    """A list of records no two of which share a prefix or URI prefix (greedy)."""
    upool = [rand_uri_prefix(rng) for _ in range(n * 2 + 2)]
    # make nesting likely: extend some pool members by one step
    upool += [u + rng.choice(U_STEPS) for u in upool[: n]]
    ppool = [rand_prefix(rng, delim) for _ in range(n * 2 + 2)]
    recs, P, U = [], set(), set()
    for _ in range(n * 6):
        if len(recs) >= n:
            break
        r = rand_record(rng, delim, upool, ppool, **kw)
        ap = {r["p"], *r["ps"]}
        au = {r["u"], *r["us"]}
        if ap & P or au & U:
            continue
        P |= ap
        U |= au
        recs.append(r)
    return recs, upool, ppool


def extra_probes(rng, recs, delim, upool=(), n=10):
    out = []
    for r in recs[:4]:
        for u in [r["u"], *r["us"]][:2]:
            out += [u + rng.choice(IDENTS), u]
        for p in [r["p"], *r["ps"]][:2]:
            out += [p + delim + rng.choice(IDENTS)]
    for u in list(upool)[:3]:
        out.append(u + "Z9")
    rng.shuffle(out)
    return out[:n]


def hazard_oplists(pid, seed, n):
    """random_oplists over the hazard pools, on a random stream of its own."""
    global P_ATOMS, U_ROOTS, U_STEPS, IDENTS, DELIMS
    saved = (P_ATOMS, U_ROOTS, U_STEPS, IDENTS, DELIMS)
    P_ATOMS, U_ROOTS, U_STEPS, IDENTS = HAZ_P_ATOMS, HAZ_U_ROOTS, HAZ_U_STEPS, HAZ_IDENTS
    DELIMS = [":", ":", "::", "/", "|", "_", "-:", "%", "%%", "%3A", "{}", "\\", "$", ".", "*", "+"]     # characters that mean something to %-formatting, str.format, re
    try:
        return random_oplists(pid, random.Random(seed * 31 + 977 + int(pid[1:])), n)
    finally:
        P_ATOMS, U_ROOTS, U_STEPS, IDENTS, DELIMS = saved


def big_records(n, tag="big"):
    """n records over distinct names; every third has a CURIE-prefix synonym, every fourth a URI-prefix synonym, and
    record 0's URI prefix is nested inside by record 1's."""
    recs = []
    for i in range(n):
        recs.append({"p": f"p{i:03d}", "u": f"http://{tag}.example/{i:03d}/" if i != 1 else f"http://{tag}.example/000/sub_",
                     "ps": [f"s{i:03d}"] if i % 3 == 0 else [], "us": [f"https://{tag}.example/{i:03d}/"] if i % 4 == 0 else [], "pat": None})
    return recs


def scale_oplists(pid, seed):
    """Behaviours beyond the SIZE bounds of the models: converters of 40 and 150 records, twelve-record clash sets,
    remappings of 130 entries; two equal big converters alive at once, one of them changed."""
    rng = random.Random(seed * 17 + 4242 + int(pid[1:]))
    out = []
    big = big_records(40)
    probes = [r["p"] + ":1" for r in big] + [r["u"] + "1" for r in big[:20]] + ["s000:1", "https://big.example/000/1", "P007:1", "a0:1", "http://big.example/000/sub_1"]
    grow = [{"k": "add", "i": 1, "rec": {"p": "a0", "u": "http://big.example/005/deeper#", "ps": ["a1"], "us": [], "pat": None}, "cs": True, "mg": False, "via": "record"},
            {"k": "add", "i": 1, "rec": {"p": "P007", "u": "http://other.example/", "ps": [], "us": ["HTTP://BIG.EXAMPLE/009/"], "pat": None}, "cs": False, "mg": True, "via": "record"},
            {"k": "add", "i": 1, "rec": {"p": "P011", "u": "http://other2.example/", "ps": [], "us": [], "pat": None}, "cs": False, "mg": False, "via": "record"},
            {"k": "add", "i": 1, "rec": {"p": "zz9", "u": "http://big.example/012/", "ps": ["p013"], "us": [], "pat": None}, "cs": True, "mg": True, "via": "record"}]
    if pid in QUERY_PROPS or pid in ("C05", "C10"):
        # two equal big converters alive at once; the first grows (nested prefix, case-insensitive merge, a prefix that sorts
        # first); both are probed on every prefix after each step
        ops = [{"k": "new", "recs": big, "delim": ":", "extra": probes}, {"k": "new", "recs": big, "delim": ":", "extra": probes}]
        for g in grow:
            ops.append(dict(g, extra=probes + [g["rec"]["p"] + ":1", g["rec"]["u"] + "1"]))
            ops.append({"k": "probe", "is": [1, 2], "extra": probes + [g["rec"]["p"] + ":1", g["rec"]["u"] + "1", "http://big.example/005/deeper#7", "http://big.example/005/7"]})
            if pid == "C05":
                ops.append({"k": "fresh", "i": 1})
        out.append(ops)
    if pid == "C04":
        # a clash between the records at positions i < j of twelve, every pair of positions, either side
        base = big_records(12, "clash")
        for i in range(12):
            for j in range(i + 1, 12):
                recs = [dict(r) for r in base]
                if (i + j) % 2:
                    recs[j] = dict(recs[j], us=sorted(set(recs[j]["us"]) | {recs[i]["u"]}))
                else:
                    recs[j] = dict(recs[j], ps=sorted(set(recs[j]["ps"]) | {recs[i]["p"]}))
                sh = list(recs)
                if (i * 12 + j) % 3 == 0:
                    rng.shuffle(sh)
                out.append([{"k": "new", "recs": sh, "delim": ":"}])
        out.append([{"k": "new", "recs": base, "delim": ":"}])
    if pid in ("C04", "C13"):
        # the loaders validate what they are given exactly like Record(...): a record that lists its own prefix / URI prefix among
        # its synonyms is rejected through every entrance (objects, plain dictionaries, a JSON file by str path and by Path)
        good = {"p": "GO", "u": "http://purl.obolibrary.org/obo/GO_", "ps": ["go"], "us": [], "pat": None}
        for bad in ({"p": "CHEBI", "u": "http://purl.obolibrary.org/obo/CHEBI_", "ps": ["chebi", "CHEBI"], "us": [], "pat": None},
                    {"p": "CHEBI", "u": "http://purl.obolibrary.org/obo/CHEBI_", "ps": [], "us": ["http://purl.obolibrary.org/obo/CHEBI_"], "pat": None}):
            for via in ("obj", "obj", "str", "path"):
                out.append([{"k": "load", "loader": "epm", "data": [good], "delim": ":", "via": via},
                            {"k": "load", "loader": "epm", "data": [good, bad], "delim": ":", "via": via},
                            {"k": "load", "loader": "epm", "data": [bad], "delim": ":", "via": via},
                            {"k": "mkrec", "rec": bad}])
    if pid in ("C09", "C10"):
        big150 = big_records(150)
        keep = [r["p"] for r in big150[:140]]
        p150 = [r["p"] + ":1" for r in big150[::7]] + [r["u"] + "1" for r in big150[::7]] + ["p145:1", "http://big.example/145/1", "late:1", "http://late.example/1"]
        out.append([{"k": "new", "recs": big150, "delim": ":", "extra": p150},
                    {"k": "sub", "i": 1, "P": keep, "extra": p150},
                    {"k": "probe", "is": [1, 2], "extra": p150},
                    {"k": "add", "i": 2, "rec": {"p": "late", "u": "http://late.example/", "ps": [], "us": ["http://big.example/003/late/"], "pat": None}, "cs": True, "mg": False, "via": "record", "extra": p150},
                    {"k": "probe", "is": [1, 2], "extra": p150 + ["http://big.example/003/late/1"]}])
        out.append([{"k": "new", "recs": big, "delim": ":"}, {"k": "new", "recs": [{"p": "P003", "u": "http://x.example/3/", "ps": ["x3"], "us": ["HTTP://BIG.EXAMPLE/004/"], "pat": None}], "delim": ":"},
                    {"k": "chain", "is": [1, 2], "cs": True}, {"k": "chain", "is": [1, 2], "cs": False}, {"k": "chain", "is": [2, 1], "cs": False}])
    if pid in ("C05", "C09", "C10"):
        # pairs of spellings on which upper(), lower() and casefold() DISAGREE about "equal up to case"
        pairs = [("id", "\u0131d"), ("ID", "\u0131d"), ("\u0130d", "i\u0307d"), ("\u039f\u0394\u039f\u03a3", "\u03bf\u03b4\u03bf\u03c2"), ("stra\u00dfe", "STRASSE"),
                 ("\u01c6", "\u01c5"), ("K", "\u212a"), ("s", "\u017f"), ("\ufb01sh", "FISH"), ("\u0149", "\u02bcN")]
        for k, (a, b) in enumerate(pairs):
            ua, ub = f"http://case.example/{a}/", f"http://case.example/{b}/"
            r1 = {"p": a, "u": ua, "ps": [], "us": [], "pat": None}
            r2 = {"p": b, "u": "http://other.example/" + str(k) + "/", "ps": ["extra" + str(k)], "us": [ub], "pat": None}
            ex = [a + ":1", b + ":1", ua + "1", ub + "1", "extra" + str(k) + ":1"]
            if pid == "C05":
                out.append([{"k": "new", "recs": [r1], "delim": ":", "extra": ex},
                            {"k": "add", "i": 1, "rec": r2, "cs": False, "mg": True, "via": "record", "extra": ex}, {"k": "fresh", "i": 1},
                            {"k": "add", "i": 1, "rec": dict(r2, p=b.swapcase(), ps=[]), "cs": False, "mg": False, "via": "record", "extra": ex}])
            else:
                out.append([{"k": "new", "recs": [r1], "delim": ":", "extra": ex}, {"k": "new", "recs": [r2], "delim": ":", "extra": ex},
                            {"k": "chain", "is": [1, 2], "cs": False, "extra": ex}, {"k": "chain", "is": [2, 1], "cs": False, "extra": ex},
                            {"k": "add", "i": 3, "rec": {"p": b, "u": "http://other.example/" + str(k) + "/", "ps": ["late" + str(k)], "us": [], "pat": None}, "cs": False, "mg": True, "via": "record", "extra": ex},
                            {"k": "add", "i": 4, "rec": {"p": a, "u": ua, "ps": ["late" + str(k)], "us": [], "pat": None}, "cs": True, "mg": True, "via": "record", "extra": ex},
                            {"k": "probe", "is": [1, 2, 3, 4], "extra": ex + ["late" + str(k) + ":1"]}])
    if pid in ("C09", "C10"):
        # nested URI prefixes across the inputs of a chain, later merges into the nested record, inputs re-observed
        obo = {"p": "OBO", "u": "http://purl.obolibrary.org/obo/", "ps": [], "us": [], "pat": None}
        go = {"p": "GO", "u": "http://purl.obolibrary.org/obo/GO_", "ps": [], "us": [], "pat": None}
        go3 = {"p": "GO", "u": "http://purl.obolibrary.org/obo/GO_", "ps": ["go", "gomf"], "us": ["https://identifiers.org/GO:"], "pat": None}
        ex = ["GO:1", "go:1", "gomf:1", "OBO:GO_1", "http://purl.obolibrary.org/obo/GO_1", "https://identifiers.org/GO:1", "http://purl.obolibrary.org/obo/x"]
        for order in ([1, 2, 3], [2, 1, 3], [1, 2], [2, 1]):
            out.append([{"k": "new", "recs": [obo], "delim": ":", "extra": ex}, {"k": "new", "recs": [go], "delim": ":", "extra": ex},
                        {"k": "new", "recs": [go3], "delim": ":", "extra": ex},
                        {"k": "chain", "is": order, "cs": True, "extra": ex}, {"k": "probe", "is": [1, 2, 3], "extra": ex},
                        {"k": "add", "i": 4, "rec": {"p": "GO", "u": "http://purl.obolibrary.org/obo/GO_", "ps": ["late"], "us": ["http://late.example/GO_"], "pat": None},
                         "cs": True, "mg": True, "via": "prefix", "extra": ex},
                        {"k": "probe", "is": [1, 2, 3, 4], "extra": ex + ["late:1", "http://late.example/GO_1"]},
                        {"k": "sub", "i": 4, "P": ["GO"], "extra": ex},
                        {"k": "add", "i": 5, "rec": {"p": "GO", "u": "http://purl.obolibrary.org/obo/GO_", "ps": ["later"], "us": [], "pat": None}, "cs": True, "mg": True, "via": "record", "extra": ex},
                        {"k": "probe", "is": [1, 2, 3, 4, 5], "extra": ex + ["later:1"]}])
    if pid in ("C10", "C11", "C12", "C09"):
        # every derivation, then a merge on the DERIVED converter that brings a new CURIE synonym and a new URI synonym into the
        # record the derivation touched; the input is re-observed (records, views with synonyms, expand_all / expand_pair_all)
        ra = {"p": "pa", "u": "http://a.example/", "ps": ["pa1"], "us": ["http://a.alt/"], "pat": None}
        rb = {"p": "pb", "u": "http://b.example/", "ps": ["pb1"], "us": [], "pat": None}
        ex = ["pa:1", "pa1:1", "pa2:1", "pz:1", "http://a.example/1", "http://a.alt/1", "http://a.new/1", "http://a.more/1", "pb:1"]
        for dop, p2, u2 in (({"k": "rewire", "i": 1, "m": [["pa", "http://a.new/"]]}, "pa", "http://a.new/"),
                            ({"k": "rewire", "i": 1, "m": [["pa1", "http://a.alt/"]]}, "pa", "http://a.alt/"),
                            ({"k": "remap_uri", "i": 1, "m": [["http://a.example/", "http://a.new/"]]}, "pa", "http://a.new/"),
                            ({"k": "remap_curie", "i": 1, "m": [["pa", "pz"]]}, "pz", "http://a.example/"),
                            ({"k": "sub", "i": 1, "P": ["pa1"]}, "pa", "http://a.example/"),
                            ({"k": "chain", "is": [1], "cs": True}, "pa", "http://a.example/")):
            if pid == "C11" and dop["k"] != "remap_curie" or pid == "C12" and dop["k"] not in ("rewire", "remap_uri") or pid == "C09" and dop["k"] not in ("sub", "chain"):
                continue
            out.append([{"k": "new", "recs": [ra, rb], "delim": ":", "extra": ex}, dict(dop, extra=ex),
                        {"k": "add", "i": 2, "rec": {"p": p2, "u": u2, "ps": ["pa2"], "us": ["http://a.more/"], "pat": None}, "cs": True, "mg": True, "via": "prefix", "extra": ex},
                        {"k": "probe", "is": [1, 2], "extra": ex},
                        {"k": "add", "i": 1, "rec": {"p": "pb", "u": "http://b.example/", "ps": ["pb2"], "us": ["http://b.more/"], "pat": None}, "cs": True, "mg": True, "via": "record", "extra": ex},
                        {"k": "probe", "is": [1, 2], "extra": ex + ["pb2:1", "http://b.more/1"]}])
    if pid in ("C11", "C10"):
        big110 = big_records(110)
        out.append([{"k": "new", "recs": big110, "delim": ":"},
                    {"k": "remap_curie", "i": 1, "m": [["p000", "fresh0"], ["p002", "p000"]]},          # p002 takes over the name p000 gives up
                    {"k": "remap_curie", "i": 1, "m": [["p002", "p000"], ["p000", "fresh0"]]},
                    {"k": "remap_curie", "i": 1, "m": [["p004", "shared"], ["p005", "shared2"], ["s003", "p077x"]]},
                    {"k": "remap_curie", "i": 1, "m": [[f"p{i:03d}", f"p{i + 1:03d}"] for i in range(20, 60)] + [["p060", "tail"]]},   # a chain of 41 renames
                    {"k": "remap_curie", "i": 1, "m": list(reversed([[f"p{i:03d}", f"p{i + 1:03d}"] for i in range(20, 60)] + [["p060", "tail"]]))}])
    if pid == "C11":
        # a chain of 1200 renames (listed head first), four of its names known to the converter
        n = 1200
        recs = [{"p": f"r{i:04d}", "u": f"http://c.example/{i}/", "ps": [], "us": [], "pat": None} for i in (0, 1, n // 2, n - 1)]
        out.append([{"k": "new", "recs": recs, "delim": ":"}, {"k": "remap_curie", "i": 1, "m": [[f"r{i:04d}", f"r{i + 1:04d}"] for i in range(n)]}])
    if pid in ("C12", "C10"):
        m130 = [[f"http://old.example/{i:03d}/", f"https://new.example/{i:03d}/"] for i in range(130)]
        m130[7] = ["http://big.example/007/", "https://new.example/007/"]
        out.append([{"k": "new", "recs": big, "delim": ":"},
                    {"k": "remap_uri", "i": 1, "m": m130},
                    {"k": "remap_uri", "i": 1, "m": m130[:128]},
                    {"k": "rewire", "i": 1, "m": [[f"p{i:03d}", f"https://rewired.example/{i:03d}/"] for i in range(40)] + [[f"q{i:03d}", f"https://unknown.example/{i:03d}/"] for i in range(95)]},
                    {"k": "rewire", "i": "last", "m": [["p001", "https://rewired.example/000/"], ["p000", "https://again.example/"]]}])
    if pid in QUERY_PROPS or pid == "C05":
        # records that carry a PATTERN (wave 11, C03-w11-M2): the pattern is documentation for writers, no query consults it --
        # identifiers that do and do not conform, through the constructor and through add_record
        for delim in (":", "::"):
            go = {"p": "GO", "u": "http://purl.obolibrary.org/obo/GO_", "ps": ["go"], "us": ["https://identifiers.org/GO:"], "pat": r"^\d{7}$"}
            chebi = {"p": "CHEBI", "u": "http://purl.obolibrary.org/obo/CHEBI_", "ps": [], "us": [], "pat": r"^\d+$"}
            free = {"p": "free", "u": "http://free.example/", "ps": [], "us": [], "pat": None}
            ex = [q + delim + i for q in ("GO", "go", "CHEBI", "free") for i in ("0032571", "32571", "", "abc", "GO" + delim + "1")] + \
                 [u + i for u in (go["u"], go["us"][0], chebi["u"], free["u"]) for i in ("0032571", "32571", "", "abc")]
            out.append([{"k": "new", "recs": [go, chebi, free], "delim": delim, "extra": ex},
                        {"k": "new", "recs": [free], "delim": delim, "extra": ex},
                        {"k": "add", "i": 2, "rec": go, "cs": True, "mg": False, "via": "record", "extra": ex},
                        {"k": "add", "i": 2, "rec": dict(chebi, ps=["chebi"]), "cs": True, "mg": True, "via": "record", "extra": ex},
                        {"k": "probe", "is": [1, 2], "extra": ex}])
    if pid in QUERY_PROPS or pid in ("C05", "C09", "C10"):
        # minimal merges (wave 10, C01-w10-M1): a merging add / a chained record that contributes exactly ONE new name -- the
        # empty string or an ordinary one, on either side -- to a record with or without synonyms on that side
        for side in ("ps", "us"):
            for name in ("", "m9" if side == "ps" else "http://m.example/9/"):
                for had in (False, True):
                    for delim in (":", "::"):
                        base = {"p": "mm", "u": "http://mm.example/a/", "ps": [], "us": [], "pat": None}
                        if had:
                            base[side] = ["old0" if side == "ps" else "http://old.example/0/"]
                        inc = dict(base, **{side: [name]})
                        ex = ["mm" + delim + "1", name + delim + "1", "http://mm.example/a/1", name + "1", "zzz", "zzz" + delim + "1", "http://zzz.example/1", delim + "1", "1"]
                        if pid == "C09":
                            out.append([{"k": "new", "recs": [base], "delim": delim, "extra": ex}, {"k": "new", "recs": [inc], "delim": delim, "extra": ex},
                                        {"k": "chain", "is": [1, 2], "cs": True, "extra": ex}, {"k": "chain", "is": [2, 1], "cs": False, "extra": ex}])
                        else:
                            ops = [{"k": "new", "recs": [base], "delim": delim, "extra": ex},
                                   {"k": "add", "i": 1, "rec": inc, "cs": True, "mg": True, "via": "record" if had else "prefix", "extra": ex},
                                   {"k": "probe", "is": [1], "extra": ex}]
                            if pid == "C05":
                                ops.append({"k": "fresh", "i": 1})
                            out.append(ops)
    return out


# ---------------------------------------------------------------------------
# op lists per property

def variants_new(ops):
    """Order variants of the last successful-looking `new`: reversed records and incremental building."""
    last = None
    for op in ops:
        if op["k"] == "new":
            last = op
    if not last or len(last["recs"]) < 2:
        return []
    rev = {"k": "new", "recs": list(reversed(last["recs"])), "delim": last["delim"]}
    inc = [{"k": "new", "recs": [last["recs"][-1]], "delim": last["delim"]}]
    # the incremental converter gets the next free id at run time: ids are positions, so compute it
    return [rev], inc, last


def oplists_from_hists(pid, hists, cmaps, rng, limit):
    hs = world.maximal(hists)
    if pid in QUERY_PROPS:
        # query properties need live converters: only behaviours whose last operation succeeded
        ok = [hl for hl in hs if hl[1] and hl[1][0] == "ok"]
        hs = ok or hs
    limit = min(int(limit * HIST_FACTOR.get(pid, 1)), 1500)
    hs, n_classes, n_single = world.stratified(hs, rng, limit)
    STRATA[pid] = {"signature_sequence_classes": n_classes, "single_operation_signatures": n_single[0],
                   "single_operation_signatures_replayed": n_single[1], "behaviours_selected": len(hs)}
    out = []
    nfold = 0
    for k, h in enumerate(hs):
        cmap = world.CONCRETE[cmaps[k % len(cmaps)]]
        if any(op.get("cs") is False for op in h):
            # a case-insensitive operation: concretisations whose case folding changes the LENGTH of a string come first
            cmap = world.CONCRETE[["sharp", "unicode", cmaps[k % len(cmaps)]][nfold % 3]]
            nfold += 1
        ops = world.conc_hist(h, cmap)
        if pid in ("C09", "C10", "C11", "C12") and k % 3 == 2:
            # the same base converters BUILT INCREMENTALLY: construct from the bare (prefix, URI prefix) pairs, then merge
            # the synonyms and patterns in -- the specification gives the same converter, the derivation must not notice
            ops2 = []
            for op in ops:
                if op["k"] == "new" and any(r["ps"] or r["us"] for r in op["recs"]):
                    ops2.append(dict(op, recs=[dict(r, ps=[], us=[]) for r in op["recs"]]))
                    for r in op["recs"]:
                        if r["ps"] or r["us"]:
                            ops2.append({"k": "add", "i": "last", "rec": r, "cs": True, "mg": True, "via": "record"})
                else:
                    ops2.append(op)
            ops = ops2
        if pid in ("C12", "C10") and k % 3 == 1:
            # the string the model uses as "unknown to the converter" is first merged into the LAST record as a URI prefix
            # synonym (an incremental step): re-pointing another record to it is now a clash and must leave both untouched
            ops2 = []
            for op in ops:
                ops2.append(op)
                if op["k"] == "new" and len(op["recs"]) >= 2 and len(ops2) == 1:
                    r = op["recs"][-1]
                    ops2.append({"k": "add", "i": "last", "rec": {"p": r["p"], "u": r["u"], "ps": [], "us": [cmap[9]], "pat": None},
                                 "cs": True, "mg": True, "via": "record"})
            ops = ops2
        if pid == "C01":
            news = [op for op in ops if op["k"] == "new"]
            if news and len(news[-1]["recs"]) >= 2:
                last = news[-1]
                nconv = sum(1 for _ in news)  # upper bound on live converters; ids resolved below
                ops.append({"k": "new", "recs": list(reversed(last["recs"])), "delim": last["delim"]})
                ops.append({"k": "new", "recs": [last["recs"][-1]], "delim": last["delim"]})
                # the id of the converter just created is only known at run time -> marker "last"
                for r in last["recs"][:-1]:
                    ops.append({"k": "add", "i": "last", "rec": r, "cs": True, "mg": False, "via": "record"})
        if pid == "C05":
            ops2 = []
            for op in ops:
                ops2.append(op)
                if op["k"] == "add":
                    ops2.append({"k": "fresh", "i": op["i"]})
            ops = ops2
        if pid in ("C10", "C11", "C12") and k % 2:
            for op in ops:
                if op["k"] in ("remap_curie", "remap_uri", "rewire"):
                    op["m"] = list(reversed(op["m"]))      # the same dictionary, listed tail first
        if pid == "C12":
            ops2 = []
            for op in ops:
                ops2.append(op)
                if op["k"] == "rewire":
                    ops2.append({"k": "rewire", "i": "last", "m": op["m"]})
            ops = ops2
        if pid == "C10":
            # follow-up merging adds on the derived converter, inputs are re-observed every step
            pass
        out.append(ops)
    return out


def random_oplists(pid, rng, n):
    out = []
    for _ in range(n):
        delim = rng.choice(DELIMS)
        ops = []
        if pid in ("C01", "C02", "C03", "C06", "C07", "C08"):
            recs, upool, _ = strict_set(rng, delim, rng.randrange(1, 7), pattern=(pid == "C02"))
            if pid in ("C02", "C03", "C07") and rng.random() < 0.5 and all(r["p"] != "" and "" not in r["ps"] for r in recs):
                recs.append({"p": "", "u": "http://default.example/" + rng.choice(["", "ns#"]), "ps": [], "us": [], "pat": None})
            if pid == "C07" and rng.random() < 0.6 and recs:
                # a URI prefix that looks like a CURIE of the same converter, and a CURIE prefix that looks like a URI scheme
                r0 = recs[0]
                amb = r0["p"] + delim
                if all(amb not in (r["u"], *r["us"]) for r in recs):
                    recs.append({"p": "http" if all("http" not in (r["p"], *r["ps"]) for r in recs) and delim not in "http" else "zq",
                                 "u": amb, "ps": [], "us": [], "pat": None})
            if pid in ("C01", "C07", "C08") and rng.random() < 0.2:
                # only C02/C03 restrict themselves to prefixes without the delimiter
                weird = {"p": rng.choice(["obo", "NCBI", "x"]) + delim + rng.choice(["go", "GENE"]), "u": "http://weird.example/" + rng.choice(["a/", "b#"]),
                         "ps": [], "us": [], "pat": None}
                if all(weird["p"] not in (r["p"], *r["ps"]) and weird["u"] not in (r["u"], *r["us"]) for r in recs):
                    recs.append(weird)
                    if rng.random() < 0.5:
                        short = weird["p"].split(delim)[0]
                        if all(short not in (r["p"], *r["ps"]) for r in recs):
                            recs.append({"p": short, "u": "http://short.example/", "ps": [], "us": [], "pat": None})
            ex = extra_probes(rng, recs, delim, upool)
            ops.append({"k": "new", "recs": recs, "delim": delim, "extra": ex})
            if rng.random() < 0.45:
                # query -> mutate -> query: incremental steps interleaved with the probe tables
                _, upool2, ppool2 = strict_set(rng, delim, 2)
                for _ in range(rng.randrange(1, 4)):
                    r = rand_record(rng, delim, upool + upool2, ppool2, maxsyn=1)
                    if rng.random() < 0.3 and recs:
                        v = rng.choice(recs)
                        r["p"] = v["p"] if rng.random() < 0.5 else r["p"]
                        r["u"] = v["u"] if r["p"] != v["p"] or rng.random() < 0.5 else r["u"]
                        r["ps"] = [x for x in r["ps"] if x != r["p"]]
                        r["us"] = [x for x in r["us"] if x != r["u"]]
                    ops.append({"k": "add", "i": 1, "rec": r, "cs": rng.random() < 0.8, "mg": rng.random() < 0.7, "via": "record",
                                "extra": extra_probes(rng, [r], delim, upool, 6)})
            if recs and rng.random() < 0.2:
                # derive, modify the DERIVED converter, then ask the original again: its answers must still fit its records
                v = rng.choice(recs)
                how = rng.choice(["sub", "chain"])
                ops.append({"k": "sub", "i": 1, "P": [v["p"]] + [r["p"] for r in recs[:2]]} if how == "sub" else {"k": "chain", "is": [1], "cs": True})
                ops.append({"k": "add", "i": "last", "rec": {"p": v["p"], "u": v["u"], "ps": ["leak" + delim.strip(":/|_-") + "x"], "us": ["http://leak.example/"], "pat": None},
                            "cs": True, "mg": True, "via": "prefix"})
                ops.append({"k": "probe", "is": [1], "extra": ["leak" + delim.strip(":/|_-") + "x" + delim + "1", "http://leak.example/1"]})
            if pid == "C01" and len(recs) >= 2:
                sh = list(recs)
                rng.shuffle(sh)
                ops.append({"k": "new", "recs": sh, "delim": delim, "extra": ex})
                ops.append({"k": "new", "recs": [sh[0]], "delim": delim})
                for r in sh[1:]:
                    ops.append({"k": "add", "i": "last", "rec": r, "cs": True, "mg": False, "via": "record", "extra": ex})
        elif pid == "C04":
            recs, upool, ppool = strict_set(rng, delim, rng.randrange(1, 5))
            # inject clashes of every kind
            for _ in range(rng.randrange(0, 3)):
                r = rand_record(rng, delim, upool, ppool)
                if recs and rng.random() < 0.8:
                    v = rng.choice(recs)
                    kind = rng.randrange(6)
                    if kind == 0:
                        r["p"] = v["p"]
                    elif kind == 1 and v["ps"]:
                        r["p"] = v["ps"][0]
                    elif kind == 2:
                        r["ps"] = sorted(set(r["ps"]) | {v["p"]})
                    elif kind == 3:
                        r["u"] = v["u"]
                    elif kind == 4 and v["us"]:
                        r["us"] = sorted(set(r["us"]) | {v["us"][0]})
                    else:
                        r["us"] = sorted(set(r["us"]) | {v["u"]})
                    r["ps"] = [x for x in r["ps"] if x != r["p"]]
                    r["us"] = [x for x in r["us"] if x != r["u"]]
                recs.insert(rng.randrange(len(recs) + 1), r)
                if recs and rng.random() < 0.4:
                    # a record holding only a LETTER-CASE variant of a clashing value (no clash by itself) next to the clash
                    v = rng.choice(recs)
                    cv = {"p": (v["p"].swapcase() if v["p"].swapcase() != v["p"] else v["p"] + "X"), "u": v["u"].swapcase() if v["u"].swapcase() != v["u"] else v["u"] + "X",
                          "ps": [], "us": [], "pat": None}
                    if all(cv["p"] not in (q["p"], *q["ps"]) and cv["u"] not in (q["u"], *q["us"]) for q in recs):
                        recs.insert(rng.randrange(len(recs) + 1), cv)
            if rng.random() < 0.3 and recs:
                bad = dict(rng.choice(recs))
                if rng.random() < 0.5:
                    bad["ps"] = sorted(set(bad["ps"]) | {bad["p"]})
                else:
                    bad["us"] = sorted(set(bad["us"]) | {bad["u"]})
                ops.append({"k": "mkrec", "rec": bad})
            for r in recs[:2]:
                ops.append({"k": "mkrec", "rec": r})
            ops.append({"k": "new", "recs": recs, "delim": delim})
            sh = list(recs)
            rng.shuffle(sh)
            ops.append({"k": "new", "recs": sh, "delim": delim})
            ops.append({"k": "load", "loader": "epm", "data": recs, "delim": delim})
            if rng.random() < 0.3:
                # beyond the properties: the NON-strict constructor (later records overwrite earlier ones) is specified too
                ops.append({"k": "new", "recs": sh, "delim": delim, "strict": False, "extra": extra_probes(rng, sh, delim, upool, 8)})
            if rng.random() < 0.5:
                # records with a HISTORY: a strict converter, a merge into one of its records, then the same Record
                # objects (plus a record claiming what was merged, or something fresh) go through the constructor again
                base, upool2, ppool2 = strict_set(rng, delim, rng.randrange(1, 4))
                if base:
                    ops.append({"k": "new", "recs": base, "delim": delim})
                    v = rng.choice(base)
                    syn_p, syn_u = "hist" + rng.choice(["A", "a", ""]), "http://hist.example/" + rng.choice(["x/", "X/"])
                    ops.append({"k": "add", "i": "last", "rec": {"p": v["p"], "u": v["u"], "ps": [syn_p], "us": [syn_u], "pat": None},
                                "cs": True, "mg": True, "via": rng.choice(["record", "prefix"])})
                    claim = rng.choice([{"p": syn_p, "u": "http://other.example/1/", "ps": [], "us": [], "pat": None},
                                        {"p": "other1", "u": syn_u, "ps": [], "us": [], "pat": None},
                                        {"p": "other2", "u": "http://other.example/2/", "ps": [syn_p], "us": [], "pat": None},
                                        {"p": "fresh3", "u": "http://other.example/3/", "ps": [], "us": [], "pat": None}])
                    ops.append({"k": "reuse", "i": "last", "recs": [claim]})
            if all(not r["ps"] and not r["us"] for r in recs) and len({r["p"] for r in recs}) == len(recs):
                ops.append({"k": "load", "loader": "prefix_map", "data": [[r["p"], r["u"]] for r in recs], "delim": delim})
        elif pid == "C05":
            recs, upool, ppool = strict_set(rng, delim, rng.randrange(0, 4), pattern=True)
            ops.append({"k": "new", "recs": recs, "delim": delim})
            for _ in range(rng.randrange(2, 8)):
                r = rand_record(rng, delim, upool, ppool, maxsyn=2, pattern=True)
                roll = rng.random()
                if roll < 0.2:
                    r["p"] = r["p"].swapcase()
                elif roll < 0.3:
                    r["u"] = r["u"].swapcase()
                via = "prefix" if r["pat"] is None and rng.random() < 0.4 else "record"
                if via == "prefix" and rng.random() < 0.1:
                    r["ps"] = sorted(set(r["ps"]) | {r["p"]})       # invalid record through add_prefix
                ops.append({"k": "add", "i": 1, "rec": r, "cs": rng.random() < 0.6, "mg": rng.random() < 0.6, "via": via,
                            "extra": extra_probes(rng, [r], delim, upool, 6)})
                ops.append({"k": "fresh", "i": 1})
        elif pid in ("C09", "C10", "C11", "C12"):
            delim = ":"
            nconv = rng.randrange(1, 4) if pid in ("C09", "C10") else 1
            upool = [rand_uri_prefix(rng) for _ in range(6)]
            ppool = [rand_prefix(rng, delim) for _ in range(6)]
            ppool += [p.swapcase() for p in ppool[:3]]
            allrecs = []
            for _ in range(nconv):
                recs, P, U = [], set(), set()
                for _ in range(12):
                    if len(recs) >= rng.randrange(1, 4):
                        break
                    r = rand_record(rng, delim, upool, ppool)
                    ap, au = {r["p"], *r["ps"]}, {r["u"], *r["us"]}
                    if ap & P or au & U:
                        continue
                    P |= ap
                    U |= au
                    recs.append(r)
                allrecs.append(recs)
                if recs and rng.random() < 0.4:
                    # built incrementally: the indexes are maintained by _index, not by the constructor
                    ops.append({"k": "new", "recs": recs[:1], "delim": delim})
                    for r in recs[1:]:
                        ops.append({"k": "add", "i": "last", "rec": r, "cs": True, "mg": False, "via": rng.choice(["record", "prefix"]) if r["pat"] is None else "record"})
                else:
                    ops.append({"k": "new", "recs": recs, "delim": delim})
            known_p = sorted({x for recs in allrecs for r in recs for x in (r["p"], *r["ps"])})
            known_u = sorted({x for recs in allrecs for r in recs for x in (r["u"], *r["us"])})
            names = known_p + ["new1", "new2", "zz"]
            kinds = {"C09": ["chain", "chain", "sub"], "C10": ["chain", "sub", "remap_curie", "remap_uri", "rewire"],
                     "C11": ["remap_curie"], "C12": ["remap_uri", "rewire"]}[pid]
            for _ in range(rng.randrange(1, 3)):
                kind = rng.choice(kinds)
                if kind == "chain":
                    idxs = list(range(1, nconv + 1))
                    rng.shuffle(idxs)
                    ops.append({"k": "chain", "is": idxs[: rng.randrange(1, nconv + 1)], "cs": rng.random() < 0.6})
                elif kind == "sub":
                    P = rng.sample(names, rng.randrange(0, min(4, len(names)) + 1))
                    parent = rng.randrange(1, nconv + 1)
                    ops.append({"k": "sub", "i": parent, "P": P})
                    if pid == "C09" and rng.random() < 0.5 and allrecs[parent - 1]:
                        # modify the subconverter, then take a subconverter of the PARENT again (by the name that was merged below)
                        v = allrecs[parent - 1][0]
                        ops.append({"k": "add", "i": "last", "rec": {"p": v["p"], "u": v["u"], "ps": ["leaked"], "us": [], "pat": None},
                                    "cs": True, "mg": True, "via": "prefix"})
                        ops.append({"k": "sub", "i": parent, "P": ["leaked", v["p"]]})
                        ops.append({"k": "chain", "is": [parent], "cs": True})
                elif kind == "remap_curie":
                    ks = rng.sample(names, rng.randrange(1, min(4, len(names)) + 1))
                    m = [[k, rng.choice(names)] for k in ks]
                    ops.append({"k": "remap_curie", "i": rng.randrange(1, nconv + 1), "m": m})
                else:
                    dom = (known_u if kind == "remap_uri" else known_p) + ["unk"]
                    tgt = known_u + ["http://new.example/1/", "http://new.example/2/", "N:"]
                    ks = rng.sample(dom, rng.randrange(1, min(3, len(dom)) + 1))
                    vs = rng.sample(tgt, len(ks))
                    ops.append({"k": kind, "i": rng.randrange(1, nconv + 1), "m": [[a, b] for a, b in zip(ks, vs)]})
                    if kind == "rewire":
                        ops.append({"k": "rewire", "i": "last", "m": [[a, b] for a, b in zip(ks, vs)]})
                if pid == "C10":
                    for _ in range(rng.randrange(1, 3)):
                        r = rand_record(rng, delim, upool, ppool)
                        ops.append({"k": "add", "i": "last", "rec": r, "cs": True, "mg": True, "via": rng.choice(["record", "prefix"])})
            if pid == "C10" and rng.random() < 0.6:
                # derive from derived converters, mutate ANY converter afterwards: every live converter is re-observed after every step
                est = nconv + 2          # optimistic estimate of the number of live converters (ops on missing ones are skipped)
                for _ in range(rng.randrange(2, 5)):
                    kind = rng.choice(["chain", "sub", "remap_curie", "remap_uri", "rewire", "add", "add", "discover"])
                    tgt = rng.randrange(1, est + 1)
                    if kind == "chain":
                        idxs = rng.sample(range(1, est + 1), rng.randrange(1, min(3, est) + 1))
                        ops.append({"k": "chain", "is": idxs, "cs": rng.random() < 0.7})
                        est += 1
                    elif kind == "sub":
                        ops.append({"k": "sub", "i": tgt, "P": rng.sample(names, rng.randrange(1, min(4, len(names)) + 1))})
                        est += 1
                    elif kind == "remap_curie":
                        ks = rng.sample(names, rng.randrange(1, min(3, len(names)) + 1))
                        ops.append({"k": "remap_curie", "i": tgt, "m": [[k, rng.choice(names)] for k in ks]})
                        est += 1
                    elif kind == "discover":
                        us = [rng.choice(known_u + ["http://disc.example/a/", "http://disc.example/b_"]) + rng.choice(["1", "x2", "a/b", ""]) for _ in range(rng.randrange(1, 6))]
                        ops.append({"k": "discover", "i": tgt, "uris": us})
                        est += 1
                    elif kind in ("remap_uri", "rewire"):
                        dom = (known_u if kind == "remap_uri" else known_p) + ["unk"]
                        ks = rng.sample(dom, rng.randrange(1, min(3, len(dom)) + 1))
                        vs = rng.sample(known_u + ["http://new.example/3/", "http://new.example/4/"], len(ks))
                        ops.append({"k": kind, "i": tgt, "m": [[a, b] for a, b in zip(ks, vs)]})
                        est += 1
                    else:
                        r = rand_record(rng, delim, upool, ppool)
                        ops.append({"k": "add", "i": tgt, "rec": r, "cs": rng.random() < 0.8, "mg": True, "via": rng.choice(["record", "prefix"])})
        elif pid == "C13":
          for _rep in range(rng.randrange(1, 4)):
            recs, upool, ppool = strict_set(rng, delim, rng.randrange(1, 5))
            via = rng.choice(["obj", "str", "path", "str"])
            kind = rng.randrange(7)
            if _rep and rng.random() < 0.6 and ops and ops[-1]["k"] == "load" and recs:
                v = recs[0]
                ops.append({"k": "add", "i": "last", "rec": {"p": v["p"], "u": v["u"], "ps": ["merged" + str(_rep)], "us": ["http://merged.example/%d/" % _rep], "pat": None},
                            "cs": True, "mg": True, "via": "prefix"})
                ops.append(dict(ops[-2]))
            if kind == 6:
                # an rdflib graph incl. a default (empty) namespace; rdflib only keeps usable namespaces
                data = [[r["p"], r["u"]] for r in recs if " " not in r["u"] and r["u"] and all(ch.isalnum() or ch in "._-" for ch in r["p"])]
                if rng.random() < 0.5:
                    data.append(["", "http://default.example/ns#"])
                if data:
                    ops.append({"k": "load", "loader": "rdflib", "data": data, "delim": delim, "via": rng.choice(["obj", "path"])})
            elif kind == 0:
                ops.append({"k": "load", "loader": "prefix_map", "data": [[r["p"], r["u"]] for r in recs], "delim": delim, "via": via})
            elif kind == 1:
                ops.append({"k": "load", "loader": "priority", "data": [[r["p"], [r["u"], *r["us"]]] for r in recs], "delim": delim, "via": via})
            elif kind == 2:
                data = [[u, r["p"]] for r in recs for u in (r["u"], *r["us"])]
                rng.shuffle(data)
                ops.append({"k": "load", "loader": "reverse", "data": data, "delim": delim, "via": via})
            elif kind == 3:
                ops.append({"k": "load", "loader": "epm", "data": recs, "delim": delim, "via": via})
            elif kind == 4:
                data = []
                for r in recs:
                    if r["p"] == "":
                        continue
                    data.append([r["p"], [rng.choice(["str", "pdict"]), r["u"]]])
                data.append(["@base", ["str", "http://base/"]])
                data.append(["", ["str", "http://empty/"]])
                data.append(["lst", ["other", ["x"]]])
                data.append(["nopfx", ["other", {"@id": "http://np/"}]])
                data.append(["falsepfx", ["other", {"@id": "http://fp/", "@prefix": False}]])
                rng.shuffle(data)
                ops.append({"k": "load", "loader": "jsonld", "data": data, "delim": delim, "via": via})
            else:
                pairs = {}
                for r in recs:
                    for p in (r["p"], *r["ps"]):
                        pairs[p] = r["u"]
                    if rng.random() < 0.5 and r["p"].swapcase() != r["p"] and r["p"].swapcase() not in pairs:
                        pairs[r["p"].swapcase()] = r["u"]       # duplicates that differ in letter case only
                items = list(pairs.items())
                rng.shuffle(items)
                ops.append({"k": "upgrade", "data": [[a, b] for a, b in items]})
                items2 = list(items)
                rng.shuffle(items2)
                ops.append({"k": "upgrade", "data": [[a, b] for a, b in items2]})
        out.append(ops)
    return out


# ---------------------------------------------------------------------------
# the check

SIZES = {
    "quick": {"hist": 100, "random": 60, "hazard": 40, "mc_timeout": 420, "tr_timeout": 900, "probe_cap": 20, "full_n": 4},
    "thorough": {"hist": 1000, "random": 400, "hazard": 300, "mc_timeout": 3400, "tr_timeout": 5400, "probe_cap": 28, "full_n": 6},
}
CMAPS = {"quick": ["ascii", "unicode", "obo", "dcolon", "case"], "thorough": ["ascii", "unicode", "obo", "dcolon", "tokens", "case"]}
ASSUMPTIONS = [
    "TLC 1.8 and the CommunityModules Json/IOUtils operators are correct",
    "the recorder's projection (public attributes records, prefix_map, synonym_to_prefix, reverse_prefix_map, trie, pattern_map, bimap, get_prefixes) faithfully exposes the converter state",
    "str.casefold is applied character-wise (the casefold table of every occurring character is logged by Python)",
    "bounded: model constants as listed in coverage.models; traces as listed; nothing is proved beyond what was explored",
]


def resolve_last(oplists):
    """`i: "last"` = the converter created by the closest preceding creating op (resolved at run time)."""
    return oplists


APALACHE = {
    "C05": {"module": "Ind_C05.tla", "init": "IndInit", "inv": "IndInv", "witnesses": [("NoThreeRecords", 0), ("NeverMerged", 0)],
            "what": "IndInv /\\ AddRecord => IndInv' (one owner per prefix, the four lookup structures are what the records denote)",
            "bounds": "<=3 records, <=2 synonyms per side, strings = unbounded integers, casefold = x div 2"},
    "C09": {"module": "Ind_C09.tla", "init": "IndInit", "inv": "IndInv", "witnesses": [("NeverMerged", 1), ("NeverRaised", 1), ("NeverCaseMerge", 1)],
            "what": "one step of chain (add_record with merge=True) preserves: one owner per prefix, known prefixes = those of the records consumed, "
                    "records of an input stay together, canonical pairs come from inputs and are never changed by a later record, "
                    "no two records equal up to case in case-insensitive mode; a bridging record raises and changes nothing",
            "bounds": "<=3 accumulated records, <=2 synonyms per side, strings = unbounded integers, casefold = x div 2"},
    "C12": {"module": "Ind_C12.tla", "init": "Init", "inv": "Inv", "witnesses": [("NeverRepointed", 1), ("NeverClash", 1)],
            "what": "the declarative statement of C12 on the result of remap_uri_prefixes / rewire",
            "bounds": "<=3 records, <=2 synonyms per side, every injective non-ambiguous mapping of <=2 pairs, strings = unbounded integers"},
}


TLAPS = {
    "C16": {"module": "C16_Machine.tla", "needs": ["BulkMachine.tla"],
            "theorems": ["C16: Spec => [](Atomic /\\ Done /\\ FailPos)  (inductive invariant IndInv; Invariance, Clauses)"],
            "bound": "none (tables of any length, uninterpreted cell semantics)",
            "bridge": "Bulk.tla INSTANTIATES BulkMachine.tla (its Begin / StepRow / WriteAll are the proved machine's actions); TraceBulk.tla validates recorded executions against them"},
    "C12": {"module": "C12_Repoint.tla", "needs": ["RepointRel.tla"],
            "theorems": ["PerRecord: CURIE side identical, no URI prefix lost, at most the mapped one gained, a target held by another record leaves the record untouched, an unused target or an own synonym becomes canonical",
                         "StrictAgain: the result is a strict converter again", "UnknownKeys: rewiring unknown CURIE prefixes changes nothing"],
            "bridge": "Prop_BridgeRepoint on mc/MC_Derive.tla: on strict inputs and non-ambiguous maps Derive!RemapURI / Derive!Rewire compute exactly RepointRel!UpdR per record"},
    "C05": {"module": "C05_Step.tla",
            "theorems": ["Step: Inv /\\ Next => OneOwner(recs')", "StepIndex: Inv /\\ Next => pm' = PMOf(recs')"],
            "bridge": "Prop_Bridge on mc/MC_Incr.tla: every add step of Conv!AddRecord is a step of StepRel"},
    "C09": {"module": "C09_Step.tla",
            "theorems": ["Known: nothing lost, nothing invented", "Together: records of an input stay in one record", "Earlier: a step never changes an existing canonical pair",
                         "Canonical (case sensitive): every canonical pair comes from an input record it contains",
                         "NoCaseDup (case insensitive): no two records hold names equal up to case",
                         "(one owner per prefix and prefix-map freshness of every intermediate converter: C05_Step, a chain step is a StepRel step with merge = TRUE)"],
            "bridge": "Derive!ChainRecs is by definition the fold of Conv!AddRecord(merge = TRUE) over the inputs' records; Prop_Bridge on mc/MC_Incr.tla: every such step is a StepRel step"},
}


def tlaps_proof(pid):
    """Machine-checked proofs (TLAPS) about one add_record / chain step written as a relation on record SETS over
    uninterpreted strings (spec/StepRel.tla) -- for converters of ANY size."""
    import re
    import shutil
    import subprocess
    cfg = TLAPS[pid]
    d = tlc.scratch("tlaps")
    try:
        for fn in cfg.get("needs", ["StepRel.tla"]) + [os.path.join("tlaps", cfg["module"])]:
            shutil.copy(os.path.join(tlc.SPEC, fn), d)
        t = time.time()
        try:
            # back-end time limits stretched: a loaded machine must not turn a 0.2 s obligation into a failure
            penv = dict(os.environ, TMPDIR=d)      # back-end temporary files stay inside the scratch directory
            p = subprocess.run(["tlapm", "--stretch", "4", cfg["module"]], cwd=d, env=penv, stdout=subprocess.PIPE, stderr=subprocess.STDOUT, text=True, timeout=900)
            if not re.search(r"All (\d+) obligations? proved", p.stdout):
                shutil.rmtree(os.path.join(d, ".tlacache"), ignore_errors=True)
                p = subprocess.run(["tlapm", "--stretch", "12", cfg["module"]], cwd=d, env=penv, stdout=subprocess.PIPE, stderr=subprocess.STDOUT, text=True, timeout=1500)
        except (subprocess.TimeoutExpired, FileNotFoundError) as e:
            return {"module": "spec/tlaps/" + cfg["module"], "outcome": f"not run ({type(e).__name__}; not relied upon)"}
        m = re.search(r"All (\d+) obligations? proved", p.stdout)
        if not m:
            raise MachineryError(f"TLAPS no longer proves spec/tlaps/{cfg['module']} (the step relation or the proof was changed)\n" + p.stdout[-1200:])
        return {"module": "spec/tlaps/" + cfg["module"], "theorems": cfg["theorems"], "obligations_proved": int(m.group(1)), "wall_s": round(time.time() - t, 1),
                "bound": cfg.get("bound", "none (any number of records, uninterpreted strings and case folding)"), "bridge": cfg["bridge"]}
    finally:
        shutil.rmtree(d, ignore_errors=True)


def apalache(pid, tier):
    """Symbolic check with Apalache (spec/apalache/*.tla): strings are unbounded integers, only sizes are bounded."""
    import re
    import shutil
    import subprocess
    cfg = APALACHE[pid]
    d = tlc.scratch("apa")
    res = {"module": "spec/apalache/" + cfg["module"], "checked": cfg["what"], "bounds": cfg["bounds"]}
    try:
        def run(inv, length):
            p = subprocess.run(["apalache-mc", "check", f"--init={cfg['init']}", f"--inv={inv}", f"--length={length}", f"--out-dir={d}", cfg["module"]],
                               cwd=os.path.join(tlc.SPEC, "apalache"), stdout=subprocess.PIPE, stderr=subprocess.STDOUT, text=True, timeout=900)
            m = re.search(r"The outcome is: (\w+)", p.stdout)
            return (m.group(1) if m else "?"), p.stdout
        t = time.time()
        out, log = run(cfg["inv"], 1)
        res["outcome"] = out
        res["wall_s"] = round(time.time() - t, 1)
        if out != "NoError":
            raise MachineryError(f"Apalache: {cfg['what']} does not hold for the specification\n" + log[-1500:])
        if tier == "thorough":
            for w, length in cfg["witnesses"]:
                o, log = run(w, length)
                res["witness_" + w] = o
                if o != "Error":
                    raise MachineryError(f"Apalache vacuity: no state violating {w} is admitted")
        return res
    except subprocess.TimeoutExpired:
        res["outcome"] = "timeout (not relied upon)"
        return res
    finally:
        shutil.rmtree(d, ignore_errors=True)


def replay_file(pid, tid, l, clause, ops, seed, opts):
    d = os.path.join(tlc.VERIF, "out", "replays")
    os.makedirs(d, exist_ok=True)
    import hashlib
    body = {"family": "world", "property": pid, "clause": list(clause), "event": l, "ops": ops, "seed": seed, "opts": opts}
    h = hashlib.sha1(json.dumps(body, sort_keys=True).encode()).hexdigest()[:12]
    path = os.path.join(d, f"{pid}-{h}.json")
    with open(path, "w") as f:
        json.dump(body, f, indent=1, ensure_ascii=False)
    return path


TWIN = {"Size": '"twin"', "MaxSteps": 6, "MaxConvs": 4, "MaxFiles": 2, "MaxAdds": 0}


def system_part(pid, tier, seed):
    """C14 (and the frame of C10) along HISTORIES: spec/System.tla -- the converter world with the files it writes and reads.
    TLC checks P_C14_sys / P_Snapshot / P_C10_sys on bounded instances; their behaviours and simulated ones are executed on
    the implementation (real files) and every event is validated by spec/Trace.tla (write / read events)."""
    sz = SIZES[tier]
    quick = tier == "quick"
    rng = random.Random(seed * 7919 + 1400 + int(pid[1:]))
    models, hists, cex_ops = [], [], []
    insts = [("quick", {}, True), ("quick", TWIN, True)]
    if not quick:
        insts += [("thorough", {}, False), ("quick", {"MaxSteps": 4, "MaxConvs": 2}, False)]
    for mtier, extra, dump in insts:
        res = world.model_check("System", mtier, [], extra, sz["mc_timeout"], want_dump=dump)
        models.append({"model": "System", "instance": mtier, "invariants": world.MODELS["System"]["always"] + world.MODELS["System"]["properties"],
                       "constants": {**world.MODELS["System"]["constants"][mtier], **extra}, **res["stats"], "wall_s": round(res["wall"], 1),
                       "violated": res["violated"]})
        hists += res["histories"]
        if res["violated"]:
            if not res["cex"]:
                raise MachineryError(f"TLC reports {res['violated']} violated on System but no counterexample could be parsed")
            cex_ops.append((res["violated"], world.conc_hist(res["cex"], world.CONCRETE["ascii"])))
    reads = [h for h in hists if any(op["k"] == "read" for op in h[0])]
    oplists = [ops for _, ops in cex_ops]
    n_cex = len(oplists)
    oplists += oplists_from_hists(pid, reads, CMAPS[tier], rng, 260 if quick else 1500)
    n_hist = len(oplists) - n_cex
    sim_h, sim_stats = world.simulate(48 if quick else 400, 10, seed + 14, timeout=sz["mc_timeout"], max_convs=8, system=True)
    for k, (h, _l, _s) in enumerate(sim_h):
        oplists.append(world.conc_hist(h, world.CONCRETE[CMAPS[tier][k % len(CMAPS[tier])]]))
    # converters that come from a LOADER (records built from bare pairs), get synonyms and a nested URI prefix merged in, are
    # written in every format and read back; and the converter read back is written again
    pmap = [["GO", "http://purl.obolibrary.org/obo/GO_"], ["CHEBI", "http://purl.obolibrary.org/obo/CHEBI_"]]
    for fmt, syn, expand in (("epm", False, False), ("jsonld", True, True), ("jsonld", True, False), ("jsonld", False, True), ("shacl", True, False), ("shacl", False, False), ("tsv", False, False)):
        for loader, data in (("prefix_map", pmap), ("priority", [[a, [b, b + "alt/"]] for a, b in pmap]), ("reverse", [[b, a] for a, b in pmap])):
            oplists.append([{"k": "load", "loader": loader, "data": data, "delim": ":"},
                            {"k": "add", "i": 1, "rec": {"p": "GO", "u": "http://purl.obolibrary.org/obo/GO_", "ps": ["go", "gomf"], "us": ["https://identifiers.org/GO:"], "pat": None},
                             "cs": True, "mg": True, "via": "prefix"},
                            {"k": "write", "i": 1, "fmt": fmt, "syn": syn, "expand": expand}, {"k": "read", "j": 1},
                            {"k": "add", "i": 2, "rec": {"p": "GO", "u": "http://purl.obolibrary.org/obo/GO_", "ps": ["late"], "us": [], "pat": None}, "cs": True, "mg": True, "via": "record"},
                            {"k": "write", "i": 2, "fmt": "epm", "syn": False, "expand": False}, {"k": "read", "j": 2}])
    opts = {"probe_cap": 8, "full_n": 0, "probe_inputs": True, "methods": LIGHT}
    batch = world.execute(oplists, seed, opts, {pid})
    fails, st = tlc.validate_traces(batch, timeout=sz["tr_timeout"])
    mine, other = {}, {}
    for tid, l, clause in fails:
        if pid in clause_tags(clause):
            mine.setdefault((tid, l), []).append(clause)
        else:
            other["/".join(clause)] = other.get("/".join(clause), 0) + 1
    for k, (inv, ops) in enumerate(cex_ops):
        if not any(t == k + 1 for (t, _l) in mine):
            raise MachineryError(f"TLC counterexample to {inv} on System does not reproduce on the implementation: "
                                 f"the specification misrepresents the code (ops: {json.dumps(ops)[:400]})")
    lines, violations, known = [], 0, []
    for (tid, l), clauses in sorted(mine.items()):
        ops = oplists[tid - 1]
        path = replay_file(pid, tid, l, clauses[0], ops, (seed * 1000003 + (tid - 1)) & 0x7FFFFFFF, opts)
        kf = findings.match(pid, {"ops": ops, "clauses": clauses})
        if kf:
            known.append(kf)
            lines.append(f"KNOWN-FINDING: property={pid} {kf['what']}")
        else:
            violations += 1
            if violations <= 10:
                lines.append(f"VIOLATION property={pid} replay={path}   # clauses {sorted(set('/'.join(c) for c in clauses))} at event {l} (history with files)")
    kinds = {}
    for t in batch["traces"]:
        for e in t["events"]:
            key = e["op"]["k"] + ":" + e["out"][0]
            kinds[key] = kinds.get(key, 0) + 1
    cov = {"models": models, "behaviours_from_tlc": n_hist, "behaviours_from_simulation": len(sim_h), "simulation": sim_stats,
           "spec_signature_coverage": STRATA.get(pid), "event_kinds": kinds, "trace_validation": st, "other_clauses_failed": other,
           "traces": len(oplists), "sample": oplists[n_cex] if len(oplists) > n_cex else None,
           "checker_cmd": "tlc spec/mc/MC_System.tla (P_C14_sys, P_Snapshot, P_C10_sys) ; TRACE_FILE=<batch> tlc spec/Trace.tla"}
    return {"lines": lines, "violations": violations, "known": known, "coverage": cov}


def hook_part(seed, tier="quick", model=False, pid="C07"):
    """C07 on subclasses of Converter that override the documented `standardize_identifier` hook (the operational specification
    models the exact class only): the answer-to-answer laws of C07 are evaluated on logged answers by spec/TraceHook.tla."""
    import hashlib
    import impl
    import curies
    I = impl.Interner()

    class Digits(curies.Converter):          # validation: only digits are identifiers
        def standardize_identifier(self, standard_prefix, identifier):
            return identifier if identifier.isdigit() else None

    class Banana(curies.Converter):          # standardisation: a redundant "PREFIX:" in front of the identifier is dropped
        def standardize_identifier(self, standard_prefix, identifier):
            head = standard_prefix + self.delimiter
            return identifier[len(head):] if identifier.startswith(head) else identifier

    class Upper(curies.Converter):           # rewriting and rejecting at once
        def standardize_identifier(self, standard_prefix, identifier):
            return identifier.upper() if identifier else None
    class GoOnly(curies.Converter):          # depends on the (canonical) prefix: GO identifiers are seven digits, the others anything
        def standardize_identifier(self, standard_prefix, identifier):
            if standard_prefix == "GO":
                return identifier.zfill(7) if identifier.isdigit() and len(identifier) <= 7 else None
            return identifier

    class Weird(curies.Converter):           # answers that look like something else: "", an identifier containing the delimiter, a URI
        def standardize_identifier(self, standard_prefix, identifier):
            if identifier == "1":
                return ""
            if identifier == "nope":
                return "x" + self.delimiter + "y"
            if identifier == "":
                return None
            return "http://purl.obolibrary.org/obo/GO_" + identifier if identifier == "a b" else identifier
    recs = [{"p": "GO", "u": "http://purl.obolibrary.org/obo/GO_", "ps": ["go"], "us": ["https://identifiers.org/GO:"], "pat": None},
            {"p": "OBO", "u": "http://purl.obolibrary.org/obo/", "ps": [], "us": [], "pat": None},
            {"p": "", "u": "http://default.example/", "ps": ["dflt"], "us": [], "pat": None}]
    calls, metas, convs = [], [], []
    classes = {cls.__name__: cls for cls in (curies.Converter, Digits, Banana, Upper, GoOnly, Weird)}       # the base class: the identity hook
    for cls in classes.values():
        for delim in (":", "/", "::"):
            for how in ("constructor", "incremental"):
                if how == "constructor":
                    c = cls([impl.mk_record(r) for r in recs], delimiter=delim)
                else:
                    # the same converter grown step by step ON THE SUBCLASS: bare pairs first, synonyms merged in afterwards
                    c = cls([], delimiter=delim)
                    for r in recs:
                        c.add_prefix(r["p"], r["u"])
                    for r in recs:
                        if r["ps"] or r["us"]:
                            c.add_prefix(r["p"], r["u"], prefix_synonyms=r["ps"], uri_prefix_synonyms=r["us"], merge=True)
                convs.append({"delim": I(delim), "recs": [impl.proj_record(I, r) for r in c.records]})
                ci = len(convs)
                xs = []
                for p in ("GO", "go", "OBO", "", "dflt", "nope"):
                    for ident in ("1", "0032571", "nope", "", "GO" + delim + "1", "a b", "x" + delim + "y"):
                        xs.append(p + delim + ident)
                for u in ("http://purl.obolibrary.org/obo/GO_", "https://identifiers.org/GO:", "http://purl.obolibrary.org/obo/", "http://default.example/", "http://unknown.example/"):
                    for ident in ("1", "nope", "", "GO_1"):
                        xs.append(u + ident)
                xs += ["", "GO", "nope", delim, "GO" + delim]
                if how == "incremental":
                    xs = xs[::3]
                canon = [r.prefix for r in c.records]
                # the pair methods never consult the hook: whole mode matrix, known / synonym / unknown prefixes, identifiers the hooks rewrite or reject
                if how == "constructor":
                    for p in ("GO", "go", "OBO", "", "dflt", "nope"):
                        for ident in ("1", "0032571", "nope", "", "a b", "GO" + delim + "1"):
                            row = impl.pair_row(I, c, ci, p, ident, True)
                            calls.append({"ci": ci, "p": row["p"], "id": row["id"], "delim": I(delim), "a": row["a"], "h": []})
                            metas.append({"hook": cls.__name__, "delimiter": delim, "built": how, "x": [p, ident], "answers": row["a"]})
                for x in dict.fromkeys(xs):
                    a = {}
                    # every method in every mode (the whole strict x passthrough matrix; parse_uri also in the legacy return_none=False mode)
                    for m, f in impl.STR_CALLS.items():
                        for suf in impl.keys_for(m, True, True):
                            sm, pm, rn = impl.SUFFIX_MODES[suf]
                            a[m + suf] = impl.call_out(I, f, c, x, sm, pm, rn)
                    # the derived operations once more with warnings turned into errors (python -W error): what a derived operation
                    # answers must not depend on the interpreter's warning policy (the primitive parsers are asked with return_none=True and
                    # emit nothing)
                    import warnings
                    for m in ("is_uri", "is_curie", "parse", "compress_or_standardize", "expand_or_standardize"):
                        with warnings.catch_warnings():
                            warnings.simplefilter("error")
                            a[m + "#w"] = impl.call_out(I, impl.STR_CALLS[m], c, x, False, False, True)
                    # the graph of the hook, observed by asking the subclass's method directly: every canonical prefix x every
                    # suffix of x after an occurrence of the delimiter
                    h, pos = [], x.find(delim)
                    while pos >= 0:
                        ident = x[pos + len(delim):]
                        for p in canon:
                            h.append([I(p), I(ident), impl.call_out(I, lambda *_: c.standardize_identifier(p, ident))])
                        pos = x.find(delim, pos + 1)
                    calls.append({"ci": ci, "x": I(x), "delim": I(delim), "a": a, "h": h})
                    metas.append({"hook": cls.__name__, "delimiter": delim, "built": how, "x": x, "answers": {k: v for k, v in a.items()}})
    groups = [calls[k:k + 100] for k in range(0, len(calls), 100)]
    fails, st = tlc.validate_calls({"strs": I.table(), "fold": I.fold(), "convs": convs, "groups": groups}, spec="TraceHook.tla", cfg="TraceHook.cfg", timeout=600)
    lines, violations = [], 0
    for g, k, clause in fails:
        mine = (clause[0].startswith("mon.C08.") or (clause[0].startswith("ans.hook.") and "@" in clause[0])) == (pid == "C08")
        if clause[0].startswith("ans.hook.pair.") and "@" not in clause[0]:
            mine = pid == "C07"          # default-mode pair answers: reported once, by the C07 check
        if not mine:
            continue
        violations += 1
        if violations <= 5:
            m = metas[(g - 1) * 100 + (k - 1)]
            d = os.path.join(tlc.VERIF, "out", "replays")
            os.makedirs(d, exist_ok=True)
            body = {"family": "hook", "property": pid, "clause": list(clause), "case": {"hook": m["hook"], "delimiter": m["delimiter"], "x": m["x"]}}
            path = os.path.join(d, pid + "-" + hashlib.sha1(json.dumps(body, sort_keys=True).encode()).hexdigest()[:12] + ".json")
            with open(path, "w") as f:
                json.dump(body, f, indent=1, ensure_ascii=False)
            lines.append(f"VIOLATION property={pid} replay={path}   # clause {'/'.join(clause)} on a Converter subclass overriding standardize_identifier ({m['hook']}), input {m['x']!r}")
    mc = hook_model(tier) if model else None
    return {"lines": lines, "violations": violations,
            "coverage": {"subclasses": ["Converter itself (identity hook)", "Digits (rejects)", "Banana (rewrites)", "Upper (both)", "GoOnly (depends on the canonical prefix)",
                                        "Weird (answers '', an identifier containing the delimiter, a URI)"],
                         "delimiters": [":", "/", "::"], "built": ["constructor", "incrementally on the subclass (add_prefix, merge)"],
                         "rows": len(calls), "answers": sum(len(c["a"]) for c in calls), "hook_graph_entries": sum(len(c["h"]) for c in calls),
                         "call_validation": st, "model": mc,
                         "clauses": "ans.hook.<method@mode>: the logged answer is Hooked!AnsH(converter from the logged records, observed graph of the hook); "
                                    "mon.C07.hook.declarative: Hooked!P_C07H with the logged answers as oracle; mon.C08.hook: Props!P_C08 with the logged answers as oracle (reported by the C08 check, together with ans.hook.<method@mode>); mon.C07.hook.<law>: answer-to-answer laws on raw logged values",
                         "laws": "is_uri <=> compress / parse_uri give a value; is_curie <=> expand gives a value; parse = parse_uri | parse_curie | nothing; "
                                 "compress_or_standardize = CURIE of parse; compress_strict / expand_strict = the strict=True calls"}}


HOOK_SIZES = {"quick": {"MaxRecs": 1, "ProbeLen": 3, "IdLen": 1}, "thorough": {"MaxRecs": 2, "ProbeLen": 3, "IdLen": 2}}


def hook_model(tier, pid="C07"):
    """TLC on spec/mc/MC_Hook.tla: the declarative C07 for hooked converters (P_C07H) against the operational hooked operators, for every
    converter x hook graph x probe string of the bound; the identity hook gives Conv's operators back; witnesses must be reachable."""
    import checks_other as co
    from concurrent.futures import ThreadPoolExecutor
    consts = dict(HOOK_SIZES[tier], FoldMap="<-Fold")
    tiny = dict(HOOK_SIZES["quick"], FoldMap="<-Fold")
    wit = ["Never_Rejected", "Never_Rewritten", "Never_UriAndCurie"] if pid == "C07" else ["Never_Rejected"]
    invs = ["Inv_C07H", "Inv_Base", "Inv_SynonymKey"] if pid == "C07" else ["Inv_C08H"]
    with ThreadPoolExecutor(4) as ex:
        main = ex.submit(co.run_model, "mc/MC_Hook.tla", "MCSpec", consts, invs, 3000 if tier == "thorough" else 900, dump=False)
        ws = [ex.submit(co.run_model, "mc/MC_Hook.tla", "MCSpec", tiny, [w], 600, dump=False) for w in wit]
        st, _, _ = main.result()
        wres = [f.result()[0] for f in ws]
    if st["violated"]:
        raise MachineryError(f"MC_Hook: {st['violated']} is violated: the hooked specification contradicts its own declarative statement")
    for w, r in zip(wit, wres):
        if r["violated"] != w:
            raise MachineryError(f"MC_Hook: witness {w} is not reachable (vacuity)")
    st["witnesses_reached"] = wit
    return st


def check(pid, tier, seed):
    t0 = time.time()
    sz = SIZES[tier]
    if pid == "C08" and tier == "thorough":
        # the whole mode matrix is logged for ten strings per probe table: 1000 + 400 + 300 behaviours took 57 minutes
        sz = dict(sz, hist=600, random=250, hazard=200)
    rng = random.Random(seed * 7919 + int(pid[1:]))
    models, hists = [], []
    violations, known, lines = 0, [], []
    cex_ops = []
    # the symbolic check (single-threaded SMT) runs next to the model checking
    from concurrent.futures import ThreadPoolExecutor
    apa_pool = ThreadPoolExecutor(1)
    apa_future = apa_pool.submit(apalache, pid, tier) if pid in APALACHE else None
    # C07: the bounded model of hooked converters (spec/mc/MC_Hook.tla) runs next to everything else
    hook_pool = ThreadPoolExecutor(1)
    hook_future = hook_pool.submit(hook_model, tier, pid) if pid in ("C07", "C08") else None
    for entry in world.PLAN[pid]:
        model, invs, extra = entry[:3]
        only = entry[3] if len(entry) > 3 else None
        if only and tier not in only:
            continue
        # thorough: the large instance is model-checked without a dump; the behaviours to replay come from
        # the quick instance (whose dump is small enough to parse), all signature classes of it
        runs = [(tier, True)] if tier == "quick" else [("thorough", False)] if only else [("thorough", False), ("quick", True)]
        for mtier, dump in runs:
            res = world.model_check(model, mtier, invs, extra if mtier == tier else {k: v for k, v in extra.items()}, sz["mc_timeout"], want_dump=dump)
            models.append({"model": model, "instance": mtier,
                           "invariants": invs + world.MODELS[model].get("always", []) + world.MODELS[model].get("properties", []),
                           "constants": {**world.MODELS[model]["constants"][mtier], **extra}, **res["stats"], "wall_s": round(res["wall"], 1),
                           "violated": res["violated"]})
            hists += res["histories"]
            if res["violated"]:
                if not res["cex"]:
                    raise MachineryError(f"TLC reports {res['violated']} violated on {model} but no counterexample could be parsed")
                cex_ops.append((model, res["violated"], world.conc_hist(res["cex"], world.CONCRETE["ascii"])))
    sim_stats = None
    sim_ops = []
    if pid == "C10" or (tier == "thorough" and pid in ("C05", "C09", "C11", "C12")):
        sim_h, sim_stats = world.simulate(24 if tier == "quick" else 160, 10, seed + 1, timeout=sz["mc_timeout"])
        for k, (h, _l, _s) in enumerate(sim_h):
            sim_ops.append(world.conc_hist(h, world.CONCRETE[CMAPS[tier][k % len(CMAPS[tier])]]))
    opts = {"probe_cap": sz["probe_cap"] if pid in QUERY_PROPS else 10, "full_n": 10 if pid == "C08" else 0,
            "probe_inputs": pid == "C10", "methods": METHODS[pid]}
    oplists = [ops for _, _, ops in cex_ops]
    n_cex = len(oplists)
    oplists += oplists_from_hists(pid, hists, CMAPS[tier], rng, sz["hist"])
    n_hist = len(oplists) - n_cex
    oplists += sim_ops
    oplists += random_oplists(pid, rng, sz["random"])
    n_plain = len(oplists)
    oplists += hazard_oplists(pid, seed, sz["hazard"])
    oplists += scale_oplists(pid, seed)
    batch = world.execute(oplists, seed, opts, {pid})
    fails, st = tlc.validate_traces(batch, timeout=sz["tr_timeout"])
    mine, other = {}, {}
    for tid, l, clause in fails:
        tags = clause_tags(clause)
        if pid == "C05" and clause[0] == "ans":
            tags = tags | {"C05"}      # after add steps every answer must be the one a fresh converter gives
        if pid in tags:
            mine.setdefault((tid, l), []).append(clause)
        else:
            other["/".join(clause)] = other.get("/".join(clause), 0) + 1
    # a counterexample of the model must reproduce on the code, otherwise the spec is wrong
    for k, (model, inv, ops) in enumerate(cex_ops):
        if not any(t == k + 1 for (t, _l) in mine):
            raise MachineryError(f"TLC counterexample to {inv} on {model} does not reproduce on the implementation: "
                                 f"the specification misrepresents the code (ops: {json.dumps(ops)[:400]})")
    for (tid, l), clauses in sorted(mine.items()):
        ops = oplists[tid - 1]
        s = (seed * 1000003 + (tid - 1)) & 0x7FFFFFFF
        path = replay_file(pid, tid, l, clauses[0], ops, s, opts)
        kf = findings.match(pid, {"ops": ops, "clauses": clauses})
        if kf:
            known.append(kf)
            lines.append(f"KNOWN-FINDING: property={pid} {kf['what']}")
        else:
            violations += 1
            if violations <= 10:
                lines.append(f"VIOLATION property={pid} replay={path}   # clauses {sorted(set('/'.join(c) for c in clauses))} at event {l}")
    # the repository's own tests as a driver: their executions are validated event by event
    repo = None
    if pid in QUERY_PROPS or pid in ("C04", "C05", "C09", "C10", "C11", "C12", "C13"):
        rb, passed = world.repo_test_traces({pid})
        shared = set(rb.get("shared_record_objects", []))
        rfails, rst = tlc.validate_traces(rb, timeout=sz["tr_timeout"])
        repo = {"tests_passed_under_recorder": passed, "converter_traces": len(rb["traces"]), "tests_sharing_record_objects_between_converters": len(shared),
                "event_kinds": {}, "events": rst["events"],
                "answers": sum(len(r["a"]) for t in rb["traces"] for e in t["events"] for r in e["pt"] + e["ppt"]), "failed_clauses": {}}
        for t_ in rb["traces"]:
            for e_ in t_["events"]:
                kk = e_["op"]["k"] + ":" + e_["out"][0]
                repo["event_kinds"][kk] = repo["event_kinds"].get(kk, 0) + 1
        for tid, l, clause in rfails:
            tags = clause_tags(clause) | ({"C05"} if pid == "C05" and clause[0] == "ans" else set())
            if clause[0] == "frame" and tid in shared:
                # the TEST handed one Record object to two converters: no property speaks about caller-provided objects
                tags = set()
            key = "/".join(clause)
            repo["failed_clauses"][key] = repo["failed_clauses"].get(key, 0) + 1
            if pid in tags:
                violations += 1
                if violations <= 10:
                    path = replay_file(pid, tid, l, clause, [{"k": "repo-test-trace", "trace": tid, "event": rb["traces"][tid - 1]["events"][l - 1]["op"]}], 0, {})
                    lines.append(f"VIOLATION property={pid} replay={path}   # clause {key} in trace {tid} recorded from the repository's own tests")
    hook = None
    if pid in ("C07", "C08"):
        hook = hook_part(seed, tier, pid=pid)
        hook["coverage"]["model"] = hook_future.result()
        models.append(hook["coverage"]["model"])
        lines += hook["lines"]
        violations += hook["violations"]
    apa = apa_future.result() if apa_future else None
    apa_pool.shutdown()
    proof = tlaps_proof(pid) if pid in TLAPS else None
    n_ans = sum(len(r["a"]) for t in batch["traces"] for e in t["events"] for r in e["pt"] + e["ppt"])
    n_events = sum(len(t["events"]) for t in batch["traces"])
    kinds = {}
    for t in batch["traces"]:
        for e in t["events"]:
            key = e["op"]["k"] + ":" + e["out"][0]
            kinds[key] = kinds.get(key, 0) + 1
    distinct = len({json.dumps(o, sort_keys=True) for o in oplists})
    cov = {
        "states": sum(m["distinct"] for m in models), "transitions": sum(m["generated"] for m in models),
        "traces_validated_against_impl": len(oplists) + (repo["converter_traces"] if repo else 0),
        "samples": [oplists[n_cex]] + ([oplists[-1]] if len(oplists) > n_cex + 1 else []),
        "evaluations": n_ans, "distinct_nontrivial": distinct,
        "rule": "evaluations = query answers of the implementation compared with the specification; distinct_nontrivial = "
                "distinct operation lists executed on the implementation (each creates at least one converter and is followed by a probe table)",
        "exhaustive": all(not m["violated"] for m in models),
        "models": models, "trace_events": n_events, "event_kinds": kinds,
        "simulation": sim_stats, "apalache_symbolic_check": apa, "tlaps_proof": proof, "overridden_identifier_hook": hook["coverage"] if hook else None, "repository_tests_as_driver": repo, "behaviours_from_tlc": n_hist, "spec_signature_coverage": STRATA.get(pid), "behaviours_from_simulation": len(sim_ops), "behaviours_random": n_plain - n_hist - n_cex - len(sim_ops),
        "behaviours_hazard_strings_and_scale": len(oplists) - n_plain,
        "concretisations": CMAPS[tier], "trace_validation": st,
        "other_clauses_failed": other, "known_findings": [k["id"] for k in known],
        "checker_cmd": "tlc -workers 16 spec/mc/MC_*.tla ; TRACE_FILE=<batch> tlc spec/Trace.tla",
    }
    return {"lines": lines, "violations": violations, "coverage": cov, "wall": time.time() - t0, "assumptions": ASSUMPTIONS}
