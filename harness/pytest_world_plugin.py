"""pytest plugin: run the REPOSITORY'S OWN test-suite with the public API wrapped by observers, and write what the
tests did as traces for spec/Trace.tla (and the pure-function calls for spec/TraceFn.tla).

The tests' assertions are weak; their executions are rich.  Every test function becomes ONE trace of the converter world:
  new(records, delimiter, strict)            every `Converter(...)` construction, also inside the loaders
  add(i, record, case_sensitive, merge)      `add_record` (and `add_prefix`, which calls it)
  chain(is, case_sensitive) / sub(i, P) / remap_curie(i, m) / remap_uri(i, m) / rewire(i, m)
  probe rows                                 every top-level query call with its outcome
and after every event the projection of EVERY converter of the test is logged, so the validator also checks the frame
condition (C10) on the maintainers' own scenarios.  The wrappers only observe: they call the original and log arguments
and outcome.  Subclasses of Converter are not recorded (they may redefine semantics).

Use:  VERIF_REC_OUT=<file> PYTHONPATH=/verif/harness:<src> pytest -p pytest_world_plugin tests
"""
from __future__ import annotations

import json
import os
import threading

import impl  # sets sys.path to the implementation under test
from curies import api as _api

_state = threading.local()
_I = impl.Interner()
_worlds = []          # finished + current worlds
_cur = None
MAX_WORLDS = int(os.environ.get("VERIF_REC_MAX", "600"))
MAX_EVENTS = 80
MAX_ROWS = 300
MAX_RECORDS = 60


def _depth():
    return getattr(_state, "depth", 0)


class _Top:
    def __enter__(self):
        _state.depth = _depth() + 1
        return _state.depth == 1

    def __exit__(self, *a):
        _state.depth -= 1


class _Deriving:
    """Inside chain / get_subconverter / remap_* / rewire: inner constructions and add_record calls are not events."""
    def __enter__(self):
        _state.deriving = getattr(_state, "deriving", 0) + 1

    def __exit__(self, *a):
        _state.deriving -= 1


def _deriving():
    return getattr(_state, "deriving", 0) > 0


def _new_world(name):
    global _cur
    if _cur is not None:
        _flush(_cur)
    _cur = {"name": name, "convs": [], "events": [], "pending": [], "ppending": [], "last_keys": [], "dead": False}
    if len(_worlds) < MAX_WORLDS:
        _worlds.append(_cur)
    else:
        _cur["dead"] = True


def _world():
    if _cur is None:
        _new_world("<collection>")
    return _cur


def _index(w, conv):
    for k, c in enumerate(w["convs"]):
        if c is conv:
            return k + 1
    return None


def _note_shared(w, recs):
    """The TEST hands a Record object that a live converter already holds to another constructor / add_record: later
    in-place merges show in both converters.  No property speaks about caller-provided objects (C10 is about the six
    derivations), so the frame condition is not judged in such a test."""
    held = {id(r) for c in w["convs"] for r in c.records}
    if any(id(r) in held for r in recs):
        w["shared"] = True


def _rec_arg(r):
    return {"p": _I(r.prefix), "u": _I(r.uri_prefix), "ps": [_I(x) for x in r.prefix_synonyms],
            "us": [_I(x) for x in r.uri_prefix_synonyms], "pat": [] if r.pattern is None else [_I(r.pattern)]}


def _event(w, op, out, pt=(), ppt=()):
    if w["dead"]:
        return
    if len(w["events"]) >= MAX_EVENTS:
        w["dead"] = True
        return
    projs = [impl.proj_conv(_I, c) for c in w["convs"]]
    keys = [json.dumps(p, sort_keys=True) for p in projs]
    last = w["last_keys"]
    convs = [({"same": True} if k < len(last) and last[k] == keys[k] else projs[k]) for k in range(len(projs))]
    w["last_keys"] = keys
    w["events"].append({"op": op, "out": out, "convs": convs, "pt": list(pt), "ppt": list(ppt)})


def _flush(w):
    if w["pending"] or w["ppending"]:
        pt, ppt = w["pending"][:MAX_ROWS], w["ppending"][:MAX_ROWS]
        w["pending"], w["ppending"] = [], []
        _event(w, {"k": "probe"}, ["ok"], pt, ppt)


def _exc_out(e):
    out = impl.enc_exc(e)
    dups = getattr(e, "duplicates", None)
    if dups is not None:
        out.append([[impl.proj_record(_I, d.record_1), impl.proj_record(_I, d.record_2), _I(d.prefix)] for d in dups])
    return out


def _wrap_init(orig):
    def __init__(self, records, *, delimiter=":", strict=True):
        if type(self) is not _api.Converter or _deriving():
            return orig(self, records, delimiter=delimiter, strict=strict)
        w = _world()
        recs = list(records)
        if w["dead"] or len(recs) > MAX_RECORDS or not all(isinstance(r, _api.Record) for r in recs) or not isinstance(delimiter, str):
            return orig(self, recs, delimiter=delimiter, strict=strict)
        _flush(w)
        _note_shared(w, recs)
        op = {"k": "new", "recs": [_rec_arg(r) for r in recs], "delim": _I(delimiter), "strict": bool(strict)}
        try:
            orig(self, recs, delimiter=delimiter, strict=strict)
        except BaseException as e:  # noqa: BLE001
            _event(w, op, _exc_out(e))
            raise
        w["convs"].append(self)
        _event(w, op, ["ok"])
    return __init__


def _wrap_add_record(orig):
    def add_record(self, record, case_sensitive=True, merge=False):
        w = _world()
        i = None if _deriving() or w["dead"] else _index(w, self)
        if i is None or not isinstance(record, _api.Record):
            return orig(self, record, case_sensitive=case_sensitive, merge=merge)
        _flush(w)
        _note_shared(w, [record])
        op = {"k": "add", "i": i, "rec": _rec_arg(record), "cs": bool(case_sensitive), "mg": bool(merge), "via": "record"}
        out = ["ok"]
        try:
            with _Top():
                return orig(self, record, case_sensitive=case_sensitive, merge=merge)
        except BaseException as e:  # noqa: BLE001
            out = impl.enc_exc(e)
            raise
        finally:
            _event(w, op, out)
    return add_record


def _derive(op_of, inputs_of):
    """Wrapper factory for the derivations: op_of(idxs, args, kwargs) -> op or None (not recordable)."""
    def deco(orig):
        def f(*a, **kw):
            w = _world()
            if _deriving() or w["dead"]:
                return orig(*a, **kw)
            try:
                ins = inputs_of(*a, **kw)
                idxs = [_index(w, c) for c in ins]
                op = None if any(i is None for i in idxs) else op_of(idxs, a, kw)
            except Exception:  # noqa: BLE001
                op = None
            if op is None:
                with _Deriving():
                    return orig(*a, **kw)
            _flush(w)
            try:
                with _Deriving():
                    res = orig(*a, **kw)
            except BaseException as e:  # noqa: BLE001
                _event(w, op, impl.enc_exc(e))
                raise
            if type(res) is _api.Converter:
                w["convs"].append(res)
                _event(w, op, ["ok"])
            return res
        f.__name__ = getattr(orig, "__name__", "f")
        f.__doc__ = getattr(orig, "__doc__", None)
        return f
    return deco


def _pairs(m):
    return [[_I(a), _I(b)] for a, b in dict(m).items()]


def _suffix(kw, name):
    s, p = bool(kw.get("strict", False)), bool(kw.get("passthrough", False))
    if name == "parse_uri":
        if s:
            return "@s"
        return "" if kw.get("return_none", False) else "@l"
    if name in impl.NOMODE:
        return ""
    if name in impl.STRICT_ONLY or name == "expand_pair_all":
        return "@s" if s else ""
    return "@sp" if s and p else "@s" if s else "@p" if p else ""


def _wrap_str(name, orig):
    def method(self, x, **kw):
        with _Top() as top:
            w = _world()
            i = _index(w, self) if top and not _deriving() and not w["dead"] else None
            if i is None or type(x) is not str or len(w["pending"]) >= MAX_ROWS:
                return orig(self, x, **kw)
            try:
                res = orig(self, x, **kw)
                out = impl.enc_val(_I, res)
                return res
            except BaseException as e:  # noqa: BLE001
                out = impl.enc_exc(e)
                raise
            finally:
                w["pending"].append({"i": i, "x": _I(x), "b": False, "f": False, "a": {name + _suffix(kw, name): out}})
    return method


def _wrap_pair(name, orig):
    def method(self, p, ident, **kw):
        with _Top() as top:
            w = _world()
            i = _index(w, self) if top and not _deriving() and not w["dead"] else None
            if i is None or not isinstance(p, str) or not isinstance(ident, str) or len(w["ppending"]) >= MAX_ROWS:
                return orig(self, p, ident, **kw)
            try:
                res = orig(self, p, ident, **kw)
                out = impl.enc_val(_I, res)
                return res
            except BaseException as e:  # noqa: BLE001
                out = impl.enc_exc(e)
                raise
            finally:
                w["ppending"].append({"i": i, "p": _I(str(p)), "id": _I(ident), "f": False, "a": {name + _suffix(kw, name): out}})
    return method


_fn_calls = []      # (function name, args, kwargs, result) of the pure functions the tests call


def _wrap_fn(mod, name):
    orig = getattr(mod, name)

    def f(*a, **kw):
        with _Top() as top:
            res = orig(*a, **kw)
            if top and len(_fn_calls) < 5000:
                _fn_calls.append((name, a, kw, res))
            return res
    f.__name__ = name
    f.__doc__ = orig.__doc__
    setattr(mod, name, f)
    return f


def pytest_configure(config):
    import curies
    from curies import discovery as _disc
    from curies import reconciliation as _rec
    from curies import w3c as _w3c
    for nm in ("is_w3c_prefix", "is_w3c_curie"):
        _wrap_fn(_w3c, nm)
    f = _wrap_fn(_disc, "discover")
    curies.discover = f
    C = _api.Converter
    C.__init__ = _wrap_init(C.__init__)
    C.add_record = _wrap_add_record(C.add_record)
    for name in impl.STR_CALLS:
        setattr(C, name, _wrap_str(name, getattr(C, name)))
    for name in ("expand_pair", "expand_pair_all", "format_curie"):
        setattr(C, name, _wrap_pair(name, getattr(C, name)))

    # derivations
    def sub_op(idxs, a, kw):
        P = a[1] if len(a) > 1 else kw["prefixes"]
        if hasattr(P, "__next__"):
            return None
        return {"k": "sub", "i": idxs[0], "P": [_I(x) for x in list(P)]}
    C.get_subconverter = _derive(sub_op, lambda *a, **kw: [a[0]])(C.get_subconverter)

    def chain_op(idxs, a, kw):
        cs = a[1] if len(a) > 1 else kw.get("case_sensitive", True)
        return {"k": "chain", "is": idxs, "cs": bool(cs)} if idxs else None
    chain = _derive(chain_op, lambda *a, **kw: list(a[0] if a else kw["converters"]))(_api.chain)
    _api.chain = chain
    curies.chain = chain
    for nm, kind in (("remap_curie_prefixes", "remap_curie"), ("remap_uri_prefixes", "remap_uri"), ("rewire", "rewire")):
        def op_of(idxs, a, kw, kind=kind):
            m = a[1] if len(a) > 1 else next(v for k_, v in kw.items() if k_ != "converter")
            return {"k": kind, "i": idxs[0], "m": _pairs(m)}
        g = _derive(op_of, lambda *a, **kw: [a[0] if a else kw["converter"]])(getattr(_rec, nm))
        setattr(_rec, nm, g)
        setattr(curies, nm, g)


def pytest_runtest_setup(item):
    _new_world(item.nodeid)


def pytest_sessionfinish(session, exitstatus):
    out = os.environ.get("VERIF_REC_OUT")
    if not out:
        return
    if _cur is not None:
        _flush(_cur)
    traces, names, shared = [], [], []
    for w in _worlds:
        if w["events"]:
            traces.append(w["events"])
            names.append(w["name"])
            if w.get("shared"):
                shared.append(len(traces))
    batch = impl.batch_json(_I, traces, [])
    batch["names"] = names
    batch["shared_record_objects"] = shared
    with open(out, "w") as f:
        json.dump(batch, f, separators=(",", ":"))
    # the pure-function calls, in a form the checks of C19 / C20 turn into TraceFn batches
    fn = []
    raw = lambda v: v if isinstance(v, str) else str(v)  # noqa: E731
    for name, a, kw, res in _fn_calls:
        if name.startswith("is_w3c") and a and isinstance(a[0], str):
            fn.append({"f": name, "x": a[0], "out": bool(res)})
        elif name == "discover" and isinstance(res, _api.Converter) and a and isinstance(a[0], (list, tuple, set, frozenset)):
            conv = kw.get("converter")
            fn.append({"f": "discover", "uris": sorted(a[0]) if isinstance(a[0], (set, frozenset)) else list(a[0]),
                       "delims": list(kw["delimiters"]) if kw.get("delimiters") else None, "cutoff": kw.get("cutoff"), "meta": kw.get("metaprefix"),
                       "conv": None if conv is None else impl.proj_conv(raw, conv), "result": impl.proj_conv(raw, res)})
    with open(out + ".fn.json", "w") as f:
        json.dump(fn, f)
