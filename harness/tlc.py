"""Thin wrappers around TLC: model checking runs, state dumps, batch trace validation."""
from __future__ import annotations

import json
import os
import re
import shutil
import subprocess
import tempfile
import time

VERIF = os.path.dirname(os.path.dirname(os.path.abspath(__file__)))
SPEC = os.path.join(VERIF, "spec")
OUT = os.path.join(VERIF, "out")
JAR_CP = "/opt/veriftools/tla/tla2tools.jar:/opt/veriftools/tla/CommunityModules-deps.jar"


class MachineryError(Exception):
    """Anything that is not a verdict about the property (exit code 2)."""


_swept = False


def _sweep_stale():
    """Remove scratch directories left behind by killed runs (their owning process no longer exists)."""
    global _swept
    if _swept:
        return
    _swept = True
    for name in os.listdir(OUT):
        m = re.match(r"^[a-z]+-(\d+)-", name)
        path = os.path.join(OUT, name)
        if m and os.path.isdir(path) and not os.path.exists(f"/proc/{m.group(1)}"):
            shutil.rmtree(path, ignore_errors=True)


def scratch(prefix="run"):
    os.makedirs(OUT, exist_ok=True)
    _sweep_stale()
    return tempfile.mkdtemp(prefix=f"{prefix}-{os.getpid()}-", dir=OUT)


def _java_cmd(args, heap="6g", tmpdir=None):
    # java.io.tmpdir inside the run's scratch directory: TLC / SANY unpack their standard modules into a fresh temporary
    # directory per run, and nothing of a check is to stay behind under /tmp
    tmp = [f"-Djava.io.tmpdir={tmpdir}"] if tmpdir else []
    return ["java", "-XX:+UseParallelGC", "-XX:ParallelGCThreads=4", "-Xss256m", f"-Xmx{heap}", *tmp, "-cp", JAR_CP, "tlc2.TLC", *args]


def run_tlc(module, cfg, *, workers=16, timeout=600, env=None, dump=None, coverage=False, extra=(), cwd=SPEC, heap="6g",
            simulate=None, seed=None, depth=None):
    """Run TLC; returns (stdout, wall seconds).  Raises MachineryError on timeout / crash."""
    md = scratch("md")
    args = ["-workers", str(workers), "-metadir", md, "-noGenerateSpecTE", "-config", cfg]
    if coverage:
        args += ["-coverage", "1"]
    if dump:
        args += ["-dump", dump]
    if simulate:
        args += ["-simulate", simulate]
    if seed is not None:
        args += ["-seed", str(seed)]
    if depth is not None:
        args += ["-depth", str(depth)]
    args += list(extra) + [module]
    e = dict(os.environ)
    e.pop("JAVA_TOOL_OPTIONS", None)
    if env:
        e.update(env)
    t0 = time.time()
    try:
        p = subprocess.run(_java_cmd(args, heap, tmpdir=md), cwd=cwd, env=e, stdout=subprocess.PIPE, stderr=subprocess.STDOUT,
                           timeout=timeout, text=True, errors="replace")
    except subprocess.TimeoutExpired as ex:
        shutil.rmtree(md, ignore_errors=True)
        raise MachineryError(f"TLC timed out after {timeout}s on {module} {cfg}") from ex
    finally:
        shutil.rmtree(md, ignore_errors=True)
    return p.stdout, time.time() - t0, p.returncode


_STATS = re.compile(r"(\d[\d,]*) states generated, (\d[\d,]*) distinct states found")


def parse_stats(out: str):
    m = None
    for m in _STATS.finditer(out):
        pass
    if not m:
        return None
    g = int(m.group(1).replace(",", ""))
    d = int(m.group(2).replace(",", ""))
    depth = re.search(r"depth of the complete state graph search is (\d+)", out)
    return {"generated": g, "distinct": d, "depth": int(depth.group(1)) if depth else None}


def violated_invariant(out: str):
    m = re.search(r"Invariant (\w+) is violated", out)
    if m:
        return m.group(1)
    m = re.search(r"Action property (\w+) is violated", out)
    if m:
        return m.group(1)
    if "is violated" in out:
        return "?"
    return None


def tlc_error(out: str):
    """A TLC-level error (parse error, evaluation error) that is not an invariant violation."""
    if violated_invariant(out):
        return None
    if "Model checking completed. No error has been found." in out or "Finished in" in out and "Error:" not in out:
        return None
    m = re.search(r"Error: (.*)", out)
    return (m.group(1) if m else "TLC did not finish normally") + "\n" + out[-1500:]


_FAIL = re.compile(r'<<"FAIL", (\d+), (\d+), <<(.*?)>>>>')
_DONE = re.compile(r'<<"DONE", (\d+)>>')


def validate_traces(batch: dict, *, spec="Trace.tla", cfg="Trace.cfg", workers=16, timeout=900, keep=None, chunk_bytes=24_000_000):
    """Run the batch trace validator.  Returns (fails, stats): fails = list of (tid, l, clause tuple).
    Large batches are validated in chunks of about `chunk_bytes` of trace JSON (the string and casefold tables are shared):
    one JVM holding a 150 MB batch spends its time in the garbage collector."""
    sizes = [len(json.dumps(t, separators=(",", ":"))) for t in batch["traces"]]
    chunks, cur, acc = [], [], 0
    for k, sz in enumerate(sizes):
        if cur and acc + sz > chunk_bytes:
            chunks.append(cur)
            cur, acc = [], 0
        cur.append(k)
        acc += sz
    if cur or not chunks:
        chunks.append(cur)
    if keep:
        with open(keep, "w") as f:
            json.dump(batch, f, separators=(",", ":"))
    t_end = time.time() + timeout
    fails, total = [], {"generated": 0, "distinct": 0, "depth": 0, "wall_s": 0.0, "bytes": 0, "traces": 0, "events": 0}
    for idxs in chunks:
        part = dict(batch, traces=[batch["traces"][k] for k in idxs])
        left = t_end - time.time()
        if left <= 5:
            raise MachineryError(f"trace validation exceeded its budget of {timeout}s ({len(chunks)} chunks)")
        f1, st = _validate_traces_1(part, spec, cfg, workers, left)
        fails += [(idxs[tid - 1] + 1, l, clause) for tid, l, clause in f1]
        for key in ("generated", "distinct", "bytes", "traces", "events"):
            total[key] += st.get(key, 0)
        total["wall_s"] = round(total["wall_s"] + st.get("wall_s", 0), 2)
        total["depth"] = max(total["depth"], st.get("depth", 0))
    if len(chunks) > 1:
        total["chunks"] = len(chunks)
    return fails, total


def _validate_traces_1(batch, spec, cfg, workers, timeout):
    d = scratch("tr")
    path = os.path.join(d, "batch.json")
    with open(path, "w") as f:
        json.dump(batch, f, separators=(",", ":"))
    size = os.path.getsize(path)
    try:
        out, wall, rc = run_tlc(spec, cfg, workers=workers, timeout=timeout, env={"TRACE_FILE": path}, heap="12g")
    finally:
        shutil.rmtree(d, ignore_errors=True)
    err = tlc_error(out)
    if err or violated_invariant(out):
        raise MachineryError("trace validator did not run to completion: " + (err or out[-1500:]))
    fails = []
    for m in _FAIL.finditer(out):
        clause = tuple(x.strip().strip('"') for x in m.group(3).split(","))
        fails.append((int(m.group(1)), int(m.group(2)), clause))
    done = {int(m.group(1)) for m in _DONE.finditer(out)}
    n = len(batch["traces"])
    missing = [t for t in range(1, n + 1) if t not in done]
    if missing:
        raise MachineryError(f"{len(missing)} of {n} traces were not consumed to their end (first: {missing[:5]})\n" + out[-1500:])
    st = parse_stats(out) or {}
    expect = sum(len(t["events"]) + 1 for t in batch["traces"])
    if st.get("distinct") != expect:
        raise MachineryError(f"trace validator visited {st.get('distinct')} states, expected {expect}")
    st.update({"wall_s": round(wall, 2), "bytes": size, "traces": n, "events": expect - n})
    return fails, st


def validate_calls(batch: dict, *, spec="TraceFn.tla", cfg="TraceFn.cfg", workers=16, timeout=900):
    """Batch validator for grouped function calls (spec/TraceFn.tla and friends).
    Returns (fails, stats); fails = list of (group, index-in-group, clause)."""
    d = scratch("fn")
    path = os.path.join(d, "batch.json")
    with open(path, "w") as f:
        json.dump(batch, f, separators=(",", ":"))
    size = os.path.getsize(path)
    try:
        out, wall, rc = run_tlc(spec, cfg, workers=workers, timeout=timeout, env={"TRACE_FILE": path}, heap="12g")
    finally:
        shutil.rmtree(d, ignore_errors=True)
    err = tlc_error(out)
    if err or violated_invariant(out):
        raise MachineryError("call validator did not run to completion: " + (err or out[-1500:]))
    fails = []
    for m in _FAIL.finditer(out):
        clause = tuple(x.strip().strip('"') for x in m.group(3).split(","))
        fails.append((int(m.group(1)), int(m.group(2)), clause))
    done = {int(m.group(1)) for m in _DONE.finditer(out)}
    n = len(batch["groups"])
    missing = [t for t in range(1, n + 1) if t not in done]
    if missing:
        raise MachineryError(f"{len(missing)} of {n} call groups were not validated (first: {missing[:5]})\n" + out[-1500:])
    st = parse_stats(out) or {}
    st.update({"wall_s": round(wall, 2), "bytes": size, "groups": n, "calls": sum(len(g) for g in batch["groups"])})
    return fails, st


def action_coverage(out: str):
    """Per-(sub)action counts from `-coverage 1`: {module!Action@line: [distinct states found, states generated]};
    an action with 0 generated states was never taken (vacuity)."""
    cov = {}
    pat = re.compile(r"^<(\w+) line (\d+), col \d+ to line \d+, col \d+ of module (\w+)(?: \((\d+) \d+ \d+ \d+\))?>: (\d+):(\d+)", re.M)
    for m in pat.finditer(out):
        cov[f"{m.group(3)}!{m.group(1)}@{m.group(4) or m.group(2)}"] = [int(m.group(5)), int(m.group(6))]
    return cov
