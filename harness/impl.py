"""Execute operation lists on the REAL curies implementation and record traces.

A trace is a list of events, one per public API call: the operation with its
arguments, its outcome, the projection of every live converter after the call and a
table of query answers.  Strings are interned into a per-batch table and written as
arrays of code points (TLC has no string indexing); see spec/Trace.tla for the
consumer.  This module contains NO oracle: it only drives and observes.
"""
from __future__ import annotations

import os
import sys
import warnings

SRC = os.environ.get("CURIES_SRC", "/repo/src")
if SRC not in sys.path:
    sys.path.insert(0, SRC)

import curies  # noqa: E402
import logging as _logging  # noqa: E402
_logging.getLogger("curies").setLevel(_logging.ERROR)      # the library's warnings are not observations
from curies import Converter, Record, ReferenceTuple  # noqa: E402
from curies import api as _api  # noqa: E402

assert os.path.realpath(curies.__file__).startswith(os.path.realpath(SRC)), (curies.__file__, SRC)

warnings.filterwarnings("ignore")


class Interner:
    """1-based string table shared by all traces of a batch."""

    def __init__(self):
        self.idx = {}
        self.strs = []

    def __call__(self, s: str) -> int:
        if not isinstance(s, str):      # a non-string where the API promises a string is an observation, not a crash
            s = "\u2039non-string %r\u203a" % (s,)
        i = self.idx.get(s)
        if i is None:
            self.strs.append(s)
            i = self.idx[s] = len(self.strs)
        return i

    def table(self):
        return [[ord(ch) for ch in s] for s in self.strs]

    def fold(self):
        chars = set()
        for s in self.strs:
            chars.update(s)
        out = []
        for ch in sorted(chars):
            f = ch.casefold()
            if f != ch:
                out.append([ord(ch), [ord(x) for x in f]])
        return out


def fam(e: BaseException) -> str:
    if isinstance(e, ValueError):
        return "curies" if type(e).__module__.startswith("curies") else "valueerror"
    return "other"


def enc_exc(e: BaseException):
    return ["raise", fam(e), type(e).__name__]


def proj_record(I, r):
    return {
        "p": I(r.prefix),
        "u": I(r.uri_prefix),
        "ps": [I(x) for x in r.prefix_synonyms],
        "us": [I(x) for x in r.uri_prefix_synonyms],
        "pat": [] if r.pattern is None else [I(r.pattern)],
    }


def proj_map(I, m):
    return [[I(k), I(v)] for k, v in m.items()]


def proj_conv(I, c: Converter):
    return {
        "delim": I(c.delimiter),
        "recs": [proj_record(I, r) for r in c.records],
        "pm": proj_map(I, c.prefix_map),
        "s2p": proj_map(I, c.synonym_to_prefix),
        "rpm": proj_map(I, c.reverse_prefix_map),
        "trie": [[I(k), I(v)] for k, v in c.trie.items()],
        "pat": proj_map(I, c.pattern_map),
        "bimap": proj_map(I, c.bimap),
        "rbimap": proj_map(I, c.reverse_bimap),
        "prefixes": [I(x) for x in c.get_prefixes()],
        "prefixes_syn": [I(x) for x in c.get_prefixes(include_synonyms=True)],
        "uprefixes": [I(x) for x in c.get_uri_prefixes()],
        "uprefixes_syn": [I(x) for x in c.get_uri_prefixes(include_synonyms=True)],
    }


def enc_val(I, v):
    if v is None:
        return ["none"]
    if isinstance(v, bool):
        return ["val", v]
    if isinstance(v, str):
        return ["val", I(v)]
    if isinstance(v, tuple) and len(v) == 2:
        if v[0] is None and v[1] is None:
            return ["none2"]
        if isinstance(v[0], str) and isinstance(v[1], str):
            return ["val", [I(v[0]), I(v[1])]]
    if isinstance(v, list) and v and all(isinstance(x, str) for x in v):
        return ["val", [I(x) for x in v]]
    return ["weird", repr(v)[:60]]


# ---------------------------------------------------------------------------
# query tables

STR_CALLS = {
    "parse_uri": lambda c, x, s, p, rn: c.parse_uri(x, strict=s, return_none=rn),
    "compress": lambda c, x, s, p, rn: c.compress(x, strict=s, passthrough=p),
    "is_uri": lambda c, x, s, p, rn: c.is_uri(x),
    "parse_curie": lambda c, x, s, p, rn: c.parse_curie(x, strict=s),
    "expand": lambda c, x, s, p, rn: c.expand(x, strict=s, passthrough=p),
    "expand_all": lambda c, x, s, p, rn: c.expand_all(x, strict=s),
    "is_curie": lambda c, x, s, p, rn: c.is_curie(x),
    "standardize_prefix": lambda c, x, s, p, rn: c.standardize_prefix(x, strict=s, passthrough=p),
    "standardize_curie": lambda c, x, s, p, rn: c.standardize_curie(x, strict=s, passthrough=p),
    "standardize_uri": lambda c, x, s, p, rn: c.standardize_uri(x, strict=s, passthrough=p),
    "parse": lambda c, x, s, p, rn: c.parse(x, strict=s),
    "compress_or_standardize": lambda c, x, s, p, rn: c.compress_or_standardize(x, strict=s, passthrough=p),
    "expand_or_standardize": lambda c, x, s, p, rn: c.expand_or_standardize(x, strict=s, passthrough=p),
    "compress_strict": lambda c, x, s, p, rn: c.compress_strict(x),
    "expand_strict": lambda c, x, s, p, rn: c.expand_strict(x),
}
def _pfx(a, b):
    """Every other pair is asked with the prefix as the library's own str subclass (`Reference(...).prefix` is a
    `curies.api.Prefix`): the answer must not depend on it."""
    return _api.Prefix(a) if (len(a) + len(b)) % 2 else a


PAIR_CALLS = {
    "expand_pair": lambda c, a, b, s, p: c.expand_pair(_pfx(a, b), b, strict=s, passthrough=p),
    "expand_reference": lambda c, a, b, s, p: c.expand_reference(ReferenceTuple(_pfx(a, b), b), strict=s, passthrough=p),
    "expand_pair_all": lambda c, a, b, s, p: c.expand_pair_all(a, b, strict=s),
    "format_curie": lambda c, a, b, s, p: c.format_curie(a, b),
}
MODE4 = {"compress", "expand", "compress_or_standardize", "expand_or_standardize",
         "standardize_prefix", "standardize_curie", "standardize_uri"}
STRICT_ONLY = {"expand_all", "parse", "parse_curie"}
NOMODE = {"is_uri", "is_curie", "compress_strict", "expand_strict"}
SUFFIX_MODES = {"": (False, False, True), "@s": (True, False, True), "@p": (False, True, True),
                "@sp": (True, True, True), "@l": (False, False, False)}
RESULT_STR_METHODS = ["compress", "expand", "standardize_prefix", "standardize_curie", "standardize_uri",
                      "compress_or_standardize", "expand_or_standardize"]


def keys_for(m: str, full: bool, base: bool):
    """Which modes of method m are recorded for a row."""
    if m in NOMODE:
        return [""]
    if m == "parse_uri":
        return ["", "@s", "@l"] if full else [""]
    if m in STRICT_ONLY:
        return ["", "@s"] if full else [""]
    if full:
        return ["", "@s", "@p", "@sp"]
    if base and m in ("compress", "expand"):
        return ["", "@s"]
    return [""]


def call_out(I, f, *a):
    try:
        return enc_val(I, f(*a))
    except BaseException as e:  # noqa: BLE001 - the class is what is being observed
        if isinstance(e, (KeyboardInterrupt, SystemExit, MemoryError)):
            raise
        return enc_exc(e)


class _Str(str):
    """A string that is an instance of a str SUBCLASS (like rdflib.URIRef or the library's own Prefix)."""


def str_row(I, c, i, x, base, full, methods=None):
    a = {}
    for m, f in STR_CALLS.items():
        if methods is not None and m not in methods:
            continue
        for suf in keys_for(m, full, base):
            s, p, rn = SUFFIX_MODES[suf]
            a[m + suf] = call_out(I, f, c, x, s, p, rn)
            if suf == "@p" and a[m + suf] == ["val", I(x)]:
                # "x unchanged": asked again with the same text as an instance of a str subclass, passthrough must hand back
                # THAT object (the validator judges this only where the default answer is None)
                x2 = _Str(x)
                try:
                    a[m + "@p#same"] = ["val", f(c, x2, s, p, rn) is x2]
                except BaseException:  # noqa: BLE001
                    a[m + "@p#same"] = ["val", False]
    return {"i": i, "x": I(x), "b": base, "f": full, "a": a}


def pair_row(I, c, i, p, ident, full, methods=None):
    a = {}
    for m, f in PAIR_CALLS.items():
        if methods is not None and m not in methods:
            continue
        if m == "format_curie":
            sufs = [""]
        elif m == "expand_pair_all":
            sufs = ["", "@s"] if full else [""]
        else:
            sufs = ["", "@s", "@p", "@sp"] if full else [""]
        for suf in sufs:
            s, pp, _ = SUFFIX_MODES[suf]
            a[m + suf] = call_out(I, f, c, p, ident, s, pp)
    return {"i": i, "p": I(p), "id": I(ident), "f": full, "a": a}


def probe_table(I, c, i, base, full=(), methods=None):
    """Rows for base strings, plus (default mode only) for every string an answer mentions."""
    full = set(full)
    base = list(dict.fromkeys(list(base) + list(full)))
    pt, seen = [], set()
    for x in base:
        pt.append(str_row(I, c, i, x, True, x in full, methods))
        seen.add(x)
    closure = []
    for row in pt:
        for m in RESULT_STR_METHODS:
            o = row["a"].get(m)
            if o and o[0] == "val":
                s = I.strs[o[1] - 1]
                if s not in seen:
                    seen.add(s)
                    closure.append(s)
    for x in closure:
        pt.append(str_row(I, c, i, x, False, False, methods))
    ppt, pseen = [], set()
    d = c.delimiter
    for x in base:
        if d and d in x:
            p, _, ident = x.partition(d)
            if (p, ident) not in pseen:
                pseen.add((p, ident))
                if methods is None or any(m in methods for m in PAIR_CALLS):
                    ppt.append(pair_row(I, c, i, p, ident, x in full, methods))
    return pt, ppt


def boundary_probes(c: Converter, rng, extra_chars="", cap=28):
    """Boundary strings around the registered prefixes (a driver heuristic, not an oracle)."""
    d = c.delimiter
    ups = sorted(c.reverse_prefix_map)
    pps = sorted(c.synonym_to_prefix)
    chars = list(dict.fromkeys(list("a1") + list(extra_chars) + list(d)))
    out = ["", d, "x", "x" + d + "y"]
    rng.shuffle(ups)
    for u in ups[:5]:
        out += [u, u + "1", u + d + "1"]
        if u:
            out += [u[:-1], u[:-1] + chr((ord(u[-1]) + 1) % 0x7F or 0x41)]
        out.append(u + rng.choice(chars))
    rng.shuffle(pps)
    for p in pps[:5]:
        out += [p + d + "1", p + d, p, p + d + d + "z", p + d + "a/b#c d"]
        if p:
            out += [p.swapcase() + d + "1", p[:-1] + d + "1"]
    for u in ups[:2]:
        for p in pps[:2]:
            out.append(p + d + u)
            out.append(u + p + d + "7")
    out = list(dict.fromkeys(out))
    if len(out) > cap:
        head = out[:6]
        rest = out[6:]
        rng.shuffle(rest)
        out = head + rest[: cap - 6]
    return out


# ---------------------------------------------------------------------------
# operations

_mk_count = [0]


def mk_record(rec: dict) -> Record:
    """Every other record is built the way people write them -- empty synonym lists and a missing pattern are simply NOT
    passed (pydantic then treats the fields as unset defaults) --, the rest with every field given."""
    _mk_count[0] += 1
    if _mk_count[0] % 2:
        kw = {"prefix": rec["p"], "uri_prefix": rec["u"]}
        if rec.get("ps"):
            kw["prefix_synonyms"] = list(rec["ps"])
        if rec.get("us"):
            kw["uri_prefix_synonyms"] = list(rec["us"])
        if rec.get("pat") is not None:
            kw["pattern"] = rec["pat"]
        return Record(**kw)
    return Record(prefix=rec["p"], uri_prefix=rec["u"], prefix_synonyms=list(rec.get("ps", [])),
                  uri_prefix_synonyms=list(rec.get("us", [])), pattern=rec.get("pat"))


def enc_rec_arg(I, rec: dict):
    return {"p": I(rec["p"]), "u": I(rec["u"]), "ps": [I(x) for x in rec.get("ps", [])],
            "us": [I(x) for x in rec.get("us", [])], "pat": [] if rec.get("pat") is None else [I(rec["pat"])]}


class World:
    """Live converters of one trace + the event list."""

    def __init__(self, I: Interner, rng, probe_cap=28, full_n=6, extra_chars="", probe_inputs=True, methods=None):
        self.methods = set(methods) if methods is not None else None
        self.I = I
        self.rng = rng
        self.convs: list[Converter] = []
        self.events = []
        self.probe_cap = probe_cap
        self.full_n = full_n
        self.extra_chars = extra_chars
        self.probe_inputs = probe_inputs

    def _probe(self, idxs, extra=()):
        pt, ppt = [], []
        for i in idxs:
            c = self.convs[i - 1]
            base = boundary_probes(c, self.rng, self.extra_chars, self.probe_cap) + list(extra)
            full = list(base)
            self.rng.shuffle(full)
            a, b = probe_table(self.I, c, i, base, full[: self.full_n], self.methods)
            pt += a
            ppt += b
        return pt, ppt

    def _event(self, op, out, probe_idxs, extra=(), **kw):
        pt, ppt = self._probe(probe_idxs, extra)
        # a converter whose whole projection (records, five indexes, views) is what it was after the previous event is
        # written as {"same": true}: the validator re-uses the previous value
        import json as _json
        projs = [proj_conv(self.I, c) for c in self.convs]
        keys = [_json.dumps(p, sort_keys=True) for p in projs]
        last = getattr(self, "_last_keys", [])
        convs = [({"same": True} if k < len(last) and last[k] == keys[k] else projs[k]) for k in range(len(projs))]
        self._last_keys = keys
        ev = {"op": op, "out": out, "convs": convs, "pt": pt, "ppt": ppt}
        ev.update(kw)
        self.events.append(ev)
        return ev

    # each method returns the outcome kind
    def new(self, recs, delim=":", strict=True, extra=()):
        I = self.I
        op = {"k": "new", "recs": [enc_rec_arg(I, r) for r in recs], "delim": I(delim), "strict": strict}
        try:
            objs = [mk_record(r) for r in recs]
        except ValueError:
            return None  # not a constructor event (record validation is exercised by mkrec)
        try:
            c = Converter(objs, delimiter=delim, strict=strict)
        except BaseException as e:  # noqa: BLE001
            out = enc_exc(e)
            dups = getattr(e, "duplicates", None)
            if dups is not None:
                out.append([[proj_record(I, d.record_1), proj_record(I, d.record_2), I(d.prefix)] for d in dups])
            self._event(op, out, [])
            return "raise"
        self.convs.append(c)
        self._event(op, ["ok"], [len(self.convs)], extra)
        return "ok"

    def fresh(self, i, extra=()):
        """Converter(copies of the current records of converter i), and BOTH converters asked the same questions: C05 says
        the incrementally built one answers exactly as the fresh one (compared answer by answer, list order included)."""
        I = self.I
        c0 = self.convs[i - 1]
        recs = [{"p": r.prefix, "u": r.uri_prefix, "ps": list(r.prefix_synonyms), "us": list(r.uri_prefix_synonyms), "pat": r.pattern} for r in c0.records]
        self.rng.shuffle(recs)
        op = {"k": "new", "recs": [enc_rec_arg(I, r) for r in recs], "delim": I(c0.delimiter), "strict": True, "fresh_of": i}
        try:
            c = Converter([mk_record(r) for r in recs], delimiter=c0.delimiter)
        except BaseException as e:  # noqa: BLE001
            out = enc_exc(e)
            dups = getattr(e, "duplicates", None)
            if dups is not None:
                out.append([[proj_record(I, d.record_1), proj_record(I, d.record_2), I(d.prefix)] for d in dups])
            self._event(op, out, [])
            return "raise"
        self.convs.append(c)
        common = boundary_probes(c0, self.rng, self.extra_chars, self.probe_cap) + list(extra)
        self._event(op, ["ok"], [i, len(self.convs)], common)
        return "ok"

    def reuse(self, i, extra_recs, extra=()):
        """Converter(list(conv_i.records) + new records): the SAME Record objects go through another strict construction."""
        I = self.I
        c0 = self.convs[i - 1]
        try:
            objs = list(c0.records) + [mk_record(r) for r in extra_recs]
        except ValueError:
            return None
        op = {"k": "new", "recs": [proj_record(I, r) for r in objs], "delim": I(c0.delimiter), "strict": True}
        try:
            c = Converter(objs, delimiter=c0.delimiter)
        except BaseException as e:  # noqa: BLE001
            out = enc_exc(e)
            dups = getattr(e, "duplicates", None)
            if dups is not None:
                out.append([[proj_record(I, d.record_1), proj_record(I, d.record_2), I(d.prefix)] for d in dups])
            self._event(op, out, [])
            return "raise"
        self.convs.append(c)
        self._event(op, ["ok"], [len(self.convs)], extra)
        return "ok"

    def mkrec(self, rec):
        op = {"k": "mkrec", "rec": enc_rec_arg(self.I, rec)}
        try:
            mk_record(rec)
            out = ["ok"]
        except BaseException as e:  # noqa: BLE001
            out = enc_exc(e)
        self._event(op, out, [])
        return out[0]

    def add(self, i, rec, cs=True, mg=False, via="record", extra=()):
        I = self.I
        c = self.convs[i - 1]
        op = {"k": "add", "i": i, "rec": enc_rec_arg(I, rec), "cs": cs, "mg": mg, "via": via}
        try:
            if via == "prefix":
                c.add_prefix(rec["p"], rec["u"], prefix_synonyms=rec.get("ps") or None,
                             uri_prefix_synonyms=rec.get("us") or None, case_sensitive=cs, merge=mg)
            else:
                c.add_record(mk_record(rec), case_sensitive=cs, merge=mg)
            out = ["ok"]
        except BaseException as e:  # noqa: BLE001
            out = enc_exc(e)
        self._event(op, out, [i], extra)
        return out[0]

    def _derive(self, op, f, inputs, extra=(), **kw):
        try:
            c = f()
            out = ["ok"]
        except BaseException as e:  # noqa: BLE001
            out = enc_exc(e)
            c = None
        if c is not None:
            self.convs.append(c)
        idxs = ([len(self.convs)] if c is not None else []) + (list(inputs) if self.probe_inputs else [])
        self._event(op, out, list(dict.fromkeys(idxs)), extra, **kw)
        return out[0]

    def chain(self, idxs, cs=True, extra=()):
        op = {"k": "chain", "is": list(idxs), "cs": cs}
        return self._derive(op, lambda: curies.chain([self.convs[i - 1] for i in idxs], case_sensitive=cs), idxs, extra)

    def sub(self, i, prefixes, extra=()):
        op = {"k": "sub", "i": i, "P": [self.I(x) for x in prefixes]}
        # the signature takes any iterable: every other call passes a one-shot iterator, the rest a list / a set
        n = len(self.events)
        arg = (lambda: iter(list(prefixes))) if n % 3 == 1 else (lambda: set(prefixes)) if n % 3 == 2 else (lambda: list(prefixes))
        return self._derive(op, lambda: self.convs[i - 1].get_subconverter(arg()), [i], extra)

    def remap(self, kind, i, pairs, extra=()):
        from curies import remap_curie_prefixes, remap_uri_prefixes, rewire
        f = {"remap_curie": remap_curie_prefixes, "remap_uri": remap_uri_prefixes, "rewire": rewire}[kind]
        op = {"k": kind, "i": i, "m": [[self.I(a), self.I(b)] for a, b in pairs]}
        kw = {}
        if kind in ("remap_uri", "rewire"):
            # several synonym keys for one record: the code takes the first in LIST order, which no property
            # fixes -> the exact post-state comparison is skipped for this event (the monitors still apply)
            keys = {a for a, _ in pairs}
            for r in self.convs[i - 1].records:
                canon, syns = (r.uri_prefix, r.uri_prefix_synonyms) if kind == "remap_uri" else (r.prefix, r.prefix_synonyms)
                if canon not in keys and sum(1 for x in set(syns) if x in keys) > 1:
                    kw["inexact"] = True
        return self._derive(op, lambda: f(self.convs[i - 1], dict(pairs)), [i], extra, **kw)

    def discover(self, i, uris, extra=()):
        """curies.discover(uris, converter=convs[i]): the sixth derivation of C10 -- only the frame is judged here
        (what discover returns is C19's business)."""
        op = {"k": "discover", "i": i, "uris": [self.I(u) for u in uris]}
        return self._derive(op, lambda: curies.discover(list(uris), converter=self.convs[i - 1]), [i], extra)

    # --- files (spec/System.tla): writing is an event of its own, reading any file written so far another
    def write(self, i, fmt, syn, expand):
        import tempfile
        c = self.convs[i - 1]
        if not hasattr(self, "files"):
            self.files = []
            self._fdir = tempfile.mkdtemp(prefix="sysfiles-", dir=os.environ.get("VERIF_TMP", "/verif/out"))
        path = os.path.join(self._fdir, f"f{len(self.files) + 1}." + {"epm": "json", "jsonld": "json", "shacl": "ttl", "tsv": "tsv"}[fmt])
        op = {"k": "write", "i": i, "fmt": fmt, "syn": bool(syn), "expand": bool(expand)}
        try:
            if fmt == "epm":
                curies.write_extended_prefix_map(c, path)
            elif fmt == "jsonld":
                curies.write_jsonld_context(c, path, include_synonyms=syn, expand=expand)
            elif fmt == "shacl":
                curies.write_shacl(c, path, include_synonyms=syn)
            else:
                curies.write_tsv(c, path)
            out = ["ok"]
        except BaseException as e:  # noqa: BLE001
            out = enc_exc(e)
        # the event number of the write identifies the file in later read events
        self.files.append({"path": path, "fmt": fmt, "syn": bool(syn), "delim": c.delimiter, "event": len(self.events) + 1, "ok": out[0] == "ok"})
        self._event(op, out, [i] if self.probe_inputs else [])
        return out[0]

    def read(self, j, extra=()):
        import csv
        f = self.files[j - 1]
        op = {"k": "read", "j": j, "w": f["event"]}

        def go():
            if f["fmt"] == "epm":
                return curies.load_extended_prefix_map(f["path"], delimiter=f["delim"])
            if f["fmt"] == "jsonld":
                return curies.load_jsonld_context(f["path"], strict=not f["syn"])
            if f["fmt"] == "shacl":
                return curies.load_shacl(f["path"], strict=not f["syn"])
            with open(f["path"], newline="") as fh:
                rows = list(csv.reader(fh, delimiter="\t"))
            return curies.load_prefix_map({r[0]: r[1] for r in rows[1:]})
        return self._derive(op, go, [], extra)

    def cleanup(self):
        import shutil
        if getattr(self, "_fdir", None):
            shutil.rmtree(self._fdir, ignore_errors=True)

    def load(self, loader, data, delim=":", strict=True, extra=(), via="obj"):
        I = self.I
        op = {"k": "load", "loader": loader, "delim": I(delim), "strict": strict}
        if loader == "rdflib":
            # bind the pairs on an rdflib graph; what the graph LISTS is the input the converter must denote
            import rdflib
            g = rdflib.Graph(bind_namespaces="none")
            for a, b in data:
                g.bind(a, rdflib.Namespace(b), override=True, replace=True)
            listing = [(str(a), str(b)) for a, b in g.namespaces()]
            op["loader"] = "prefix_map"
            op["data"] = [[I(a), I(b)] for a, b in listing]
            return self._derive(op, lambda: Converter.from_rdflib(g if via != "path" else g.namespace_manager, delimiter=delim, strict=strict), [], extra)
        if loader in ("prefix_map", "reverse"):
            op["data"] = [[I(a), I(b)] for a, b in data]
            obj = dict(data)
            f = Converter.from_prefix_map if loader == "prefix_map" else Converter.from_reverse_prefix_map
        elif loader == "priority":
            op["data"] = [[I(a), [I(x) for x in b]] for a, b in data]
            obj = {a: list(b) for a, b in data}
            f = Converter.from_priority_prefix_map
        elif loader == "epm":
            op["data"] = [enc_rec_arg(I, r) for r in data]
            obj = [{"prefix": r["p"], "uri_prefix": r["u"], "prefix_synonyms": list(r.get("ps", [])),
                    "uri_prefix_synonyms": list(r.get("us", [])), **({"pattern": r["pat"]} if r.get("pat") is not None else {})}
                   for r in data]
            f = Converter.from_extended_prefix_map
        elif loader == "jsonld":
            enc, ctx = [], {}
            for key, term in data:
                kind = term[0]
                if kind == "str":
                    enc.append([I(key), ["str", I(term[1])]])
                    ctx[key] = term[1]
                elif kind == "pdict":
                    enc.append([I(key), ["pdict", I(term[1])]])
                    ctx[key] = {"@id": term[1], "@prefix": True}
                else:
                    enc.append([I(key), ["other"]])
                    ctx[key] = term[1]
            op["data"] = enc
            obj = {"@context": ctx}
            f = Converter.from_jsonld
        else:
            raise KeyError(loader)
        def go():
            if via == "obj":
                if loader == "epm" and len(self.events) % 2:
                    # Iterable[...]: a one-shot iterator of dictionaries / of Record objects is as good as a list
                    it = iter(obj) if len(self.events) % 4 == 1 else (Record(**dd) for dd in obj)
                    return f(it, delimiter=delim, strict=strict)
                return f(obj, delimiter=delim, strict=strict)
            import json as _json, pathlib
            # the SAME path is rewritten for every load of this process: load, rewrite, load again
            d = os.path.join(os.environ.get("VERIF_TMP", "/verif/out"), f"load-{os.getpid()}")
            os.makedirs(d, exist_ok=True)
            path = os.path.join(d, "data.json")
            with open(path, "w", encoding="utf-8") as fh:
                _json.dump(obj, fh, ensure_ascii=(via == "str"))
            if via == "str" and len(self.events) % 2:
                # a RELATIVE path whose name begins like a URL scheme is still a local file
                rel = ["http_prefixes.json", "ftp-mirror.json", "https.json"][len(self.events) % 3]
                os.replace(path, os.path.join(d, rel))
                cwd = os.getcwd()
                try:
                    os.chdir(d)
                    return f(rel, delimiter=delim, strict=strict)
                finally:
                    os.chdir(cwd)
            return f(path if via == "str" else pathlib.Path(path), delimiter=delim, strict=strict)
        return self._derive(op, go, [], extra)

    def upgrade(self, pairs):
        I = self.I
        op = {"k": "upgrade", "data": [[I(a), I(b)] for a, b in pairs]}
        try:
            recs = curies.upgrade_prefix_map(dict(pairs))
            out = ["val", [proj_record(I, r) for r in recs]]
        except BaseException as e:  # noqa: BLE001
            out = enc_exc(e)
        self._event(op, out, [])
        return out[0]

    def probe(self, idxs, extra=()):
        self._event({"k": "probe"}, ["ok"], list(idxs), extra)


def batch_json(I: Interner, traces, focus, ddelim=":"):
    dd = I(ddelim)
    return {"strs": I.table(), "fold": I.fold(), "ddelim": dd, "focus": sorted(focus),
            "traces": [{"events": t} for t in traces]}
