"""Parser for TLA+ values as printed by TLC (state dumps, error traces).

<<...>> -> tuple, {...} -> frozenset, [a |-> v, ...] -> dict, (k :> v @@ ...) -> dict,
"..." -> str, integers, TRUE/FALSE.
"""
from __future__ import annotations

import re


class _P:
    def __init__(self, s):
        self.s = s
        self.i = 0

    def ws(self):
        s, i = self.s, self.i
        while i < len(s) and s[i] in " \t\r\n":
            i += 1
        self.i = i

    def eat(self, tok):
        self.ws()
        if self.s.startswith(tok, self.i):
            self.i += len(tok)
            return True
        return False

    def expect(self, tok):
        if not self.eat(tok):
            raise ValueError(f"expected {tok!r} at {self.i}: {self.s[self.i:self.i+40]!r}")

    def value(self):
        self.ws()
        s = self.s
        c = s[self.i]
        if s.startswith("<<", self.i):
            self.i += 2
            items = self.items(">>")
            return tuple(items)
        if c == "{":
            self.i += 1
            items = self.items("}")
            try:
                return frozenset(items)
            except TypeError:      # a set of records: keep it as a tuple (callers only iterate)
                return tuple(items)
        if c == "[":
            self.i += 1
            d = {}
            if self.eat("]"):
                return d
            while True:
                self.ws()
                m = re.compile(r"[A-Za-z_][A-Za-z0-9_]*").match(s, self.i)
                if not m:
                    raise ValueError(f"field name expected at {self.i}")
                self.i = m.end()
                self.expect("|->")
                d[m.group(0)] = self.value()
                if self.eat("]"):
                    return d
                self.expect(",")
        if c == "(":
            self.i += 1
            d = {}
            while True:
                k = self.value()
                self.expect(":>")
                d[k] = self.value()
                if self.eat(")"):
                    return d
                self.expect("@@")
        if c == '"':
            j = self.i + 1
            out = []
            while s[j] != '"':
                if s[j] == "\\":
                    j += 1
                out.append(s[j])
                j += 1
            self.i = j + 1
            return "".join(out)
        m = re.compile(r"-?\d+").match(s, self.i)
        if m:
            self.i = m.end()
            v = int(m.group(0))
            if self.eat(".."):
                hi = self.value()
                return frozenset(range(v, hi + 1))
            return v
        if s.startswith("TRUE", self.i):
            self.i += 4
            return True
        if s.startswith("FALSE", self.i):
            self.i += 5
            return False
        m = re.compile(r"[A-Za-z_][A-Za-z0-9_]*").match(s, self.i)
        if m:  # model value
            self.i = m.end()
            return m.group(0)
        raise ValueError(f"cannot parse value at {self.i}: {s[self.i:self.i+40]!r}")

    def items(self, close):
        out = []
        if self.eat(close):
            return out
        while True:
            out.append(self.value())
            if self.eat(close):
                return out
            self.expect(",")


def parse(text: str):
    p = _P(text)
    v = p.value()
    p.ws()
    if p.i != len(text):
        raise ValueError(f"trailing text at {p.i}: {text[p.i:p.i+40]!r}")
    return v


_STATE = re.compile(r"^State (\d+):\s*$", re.M)


def dump_states(path: str, want=("hist",)):
    """Yield {var: value} for each state of a TLC -dump file (only the wanted variables)."""
    with open(path) as f:
        text = f.read()
    parts = _STATE.split(text)
    # parts = [pre, n1, body1, n2, body2, ...]
    for k in range(2, len(parts), 2):
        body = parts[k].strip()
        if not body:
            continue
        if body.startswith("/\\"):
            body = body[2:]
        st = {}
        for chunk in re.split(r"\n/\\ ", body):
            name, _, val = chunk.partition("=")
            name = name.strip()
            if name in want:
                st[name] = parse(val.strip())
        yield st


def error_trace(out: str, want=("hist",)):
    """States of the counterexample printed by TLC in its stdout."""
    states = []
    for m in re.finditer(r"^State \d+: .*?\n(.*?)(?=^State \d+:|^\d+ states generated|\Z)", out, re.M | re.S):
        body = m.group(1).strip()
        if body.startswith("/\\"):
            body = body[2:]
        st = {}
        for chunk in re.split(r"\n/\\ ", body):
            name, _, val = chunk.partition("=")
            name = name.strip()
            if name in want:
                try:
                    st[name] = parse(val.strip())
                except ValueError:
                    pass
        states.append(st)
    return states


def sim_last_states(directory: str, want=("hist",)):
    """Last state of every behaviour file written by `tlc -simulate file=<dir>/tr,num=N`."""
    import glob
    out = []
    for f in sorted(glob.glob(directory + "/tr_*")):
        text = open(f).read()
        parts = re.split(r"^STATE_\d+ ==\s*$", text, flags=re.M)
        if len(parts) < 2:
            continue
        body = parts[-1].strip()
        body = re.split(r"\n\s*\n|\n=+|\n\\\*", body)[0].strip()
        if body.startswith("/\\"):
            body = body[2:]
        st = {}
        for chunk in re.split(r"\n/\\ ", body):
            name, _, val = chunk.partition("=")
            name = name.strip()
            if name in want:
                st[name] = parse(val.strip())
        out.append(st)
    return out
