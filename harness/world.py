"""Checks for the converter world (C01..C13): TLC model checking of the bounded models,
replay of TLC-generated behaviours on the real code, random drivers beyond the bounds,
and validation of every recorded trace against spec/Trace.tla."""
from __future__ import annotations

import json
import os
import random
import shutil
import time
from concurrent.futures import ProcessPoolExecutor

import tlaval
import tlc
from tlc import MachineryError

# ---------------------------------------------------------------------------
# bounded models

COMMON = {"FoldMap": "<- Fold", "DefaultDelim": "<- MCDefaultDelim"}

MODELS = {
    "Query": {
        "module": "mc/MC_Query.tla", "spec": "MCSpec",
        "constants": {"quick": {"MaxRecs": 2, "ProbeLen": 3, "Tier": '"quick"', "MaxSyn": 1},
                      "thorough": {"MaxRecs": 2, "ProbeLen": 4, "Tier": '"thorough"', "MaxSyn": 1}},
        "always": ["Inv_Struct"],
    },
    "Incr": {
        "module": "mc/MC_Incr.tla", "spec": "MCSpec", "view": "MCView",
        "constants": {"quick": {"MaxOps": 3, "Tier": '"quick"', "Wide": "FALSE"}, # thorough: the wide pools ("" and the length-changing fold pair) with two adds (418 k distinct / 3.3 M generated, 2-3 min);
                      # three adds over the wide pools did not finish in 25-50 minutes; three adds over the narrow pools is the quick
                      # instance, which every thorough run model-checks too (it is the dumped one)
                      "thorough": {"MaxOps": 2, "Tier": '"thorough"', "Wide": "FALSE"}},
        "always": ["Inv_C05"], "properties": ["Prop_C05", "P_C10", "Prop_Bridge"],
    },
    "Build": {
        "module": "mc/MC_Build.tla", "spec": "BSpec",
        "constants": {"quick": {"MaxRecs": 3, "MaxEntries": 3, "Tier": '"quick"'},
                      "thorough": {"MaxRecs": 3, "MaxEntries": 3, "Tier": '"thorough"'}},
        "always": ["Inv_C13strict"],
    },
    "Derive": {
        "module": "mc/MC_Derive.tla", "spec": "MCSpec", "view": "MCView",
        "constants": {"quick": {"MaxBase": 2, "MaxFollow": 0, "MaxPairs": 1, "Tier": '"quick"', "BaseMode": '"singles"'},
                      # thorough: the quick pools with ALL bases (one- and two-record), two-pair maps and a follow-up add; the wide
                      # pools (Tier = "thorough") are used by the thorough-only instances of PLAN below (they multiply too fast otherwise)
                      "thorough": {"MaxBase": 2, "MaxFollow": 1, "MaxPairs": 2, "Tier": '"quick"', "BaseMode": '"all"'}},
        "always": ["Inv_Struct"], "properties": ["P_C10", "Prop_BridgeRepoint"],
    },
    "Remap": {
        "module": "mc/MC_Remap.tla", "spec": "MCSpec",
        # thorough: a fifth name with one-record converters (two records x five names x every partial map did not finish in
        # 50 minutes); the two-record / four-name instance is part of every thorough run as the dumped instance
        "constants": {"quick": {"MaxRecs": 2, "NNames": 4, "Shape": '"all"', "MaxPairs": 0}, "thorough": {"MaxRecs": 1, "NNames": 5, "Shape": '"all"', "MaxPairs": 0}},
        "always": ["Inv_Struct"], "properties": ["P_C10"],
    },
    # the converter world with its files (spec/System.tla)
    "System": {
        "module": "mc/MC_System.tla", "spec": "MCSpec", "view": "View",
        "constants": {"quick": {"MaxConvs": 3, "MaxSteps": 3, "MaxFiles": 1, "MaxAdds": 1, "Size": '"tiny"'},
                      "thorough": {"MaxConvs": 3, "MaxSteps": 3, "MaxFiles": 1, "MaxAdds": 1, "Size": '"narrow"'}},
        "always": ["Inv_StrictReads"], "properties": ["P_C14_sys", "P_Snapshot", "P_C10_sys"],
    },
}

# property -> list of (model, invariants, extra constants)
PLAN = {
    "C01": [("Query", ["Inv_C01"], {}), ("Query", ["Inv_C01"], {"MaxRecs": 3, "MaxSyn": 0}), ("Incr", ["Inv_C01"], {"MaxOps": 2})],
    "C02": [("Query", ["Inv_C02"], {}), ("Query", ["Inv_C02"], {"MaxRecs": 3, "MaxSyn": 0}), ("Incr", ["Inv_C02"], {"MaxOps": 2})],
    "C03": [("Query", ["Inv_C03"], {}), ("Query", ["Inv_C03"], {"MaxRecs": 3, "MaxSyn": 0}), ("Incr", ["Inv_C03"], {"MaxOps": 2})],
    "C06": [("Query", ["Inv_C06"], {}), ("Query", ["Inv_C06"], {"MaxRecs": 3, "MaxSyn": 0}), ("Incr", ["Inv_C06"], {"MaxOps": 2})],
    "C07": [("Query", ["Inv_C07"], {}), ("Query", ["Inv_C07"], {"MaxRecs": 3, "MaxSyn": 0}), ("Incr", ["Inv_C07"], {"MaxOps": 2})],
    "C08": [("Query", ["Inv_C08", "Inv_C08pair"], {}), ("Query", ["Inv_C08"], {"MaxRecs": 3, "MaxSyn": 0}), ("Incr", ["Inv_C08"], {"MaxOps": 2})],
    "C04": [("Build", ["Inv_C04", "Inv_C04load"], {})],
    "C13": [("Build", ["Inv_C13"], {})],
    "C05": [("Incr", [], {}), ("Incr", [], {"MaxOps": 1, "Wide": "TRUE"})],
    "C09": [("Derive", ["Inv_C09"], {"Ops": '{"chain", "sub"}'}),
            ("Derive", ["Inv_C09"], {"Ops": '{"chain", "sub"}', "MaxBase": 1, "BaseMode": '"all"'}),
            ("Derive", ["Inv_C09"], {"Ops": '{"chain"}', "MaxBase": 2, "BaseMode": '"bridge"'}),     # a later record bridges two earlier ones
            ("Derive", ["Inv_C09"], {"Ops": '{"chain", "sub"}', "MaxBase": 1, "BaseMode": '"all"', "Tier": '"thorough"', "MaxFollow": 0}, {"thorough"}),
            ("Derive", ["Inv_C09"], {"Ops": '{"chain"}', "MaxBase": 2, "BaseMode": '"bridge"', "Tier": '"thorough"', "MaxFollow": 0}, {"thorough"})],
    "C12": [("Derive", ["Inv_C12"], {"Ops": '{"remap_uri", "rewire"}', "MaxBase": 1, "BaseMode": '"all"'}),
            ("Derive", ["Inv_C12"], {"Ops": '{"remap_uri", "rewire"}', "MaxBase": 1, "BaseMode": '"all"', "Tier": '"thorough"', "MaxPairs": 1, "MaxFollow": 0}, {"thorough"})],
    "C10": [("Derive", [], {"Ops": '{"chain", "sub"}', "MaxFollow": 1}),
            ("Derive", [], {"Ops": '{"chain", "sub", "remap_uri", "rewire"}', "MaxFollow": 1, "MaxBase": 1, "BaseMode": '"all"'}),
            ("Remap", [], {"MaxRecs": 1}),
            ("Derive", [], {"Ops": '{"chain", "sub", "remap_uri", "rewire"}', "MaxBase": 1, "BaseMode": '"all"', "Tier": '"thorough"', "MaxPairs": 1, "MaxFollow": 0}, {"thorough"}),
            ("System", [], {})],       # writing a file changes no converter; reading one changes none but the new one
    "C11": [("Remap", ["Inv_C11"], {}),
            # two fixed three-record converters x every map of <= 3 pairs over six names (a skipped pair next to an applicable one)
            ("Remap", ["Inv_C11"], {"Shape": '"three"', "NNames": 6, "MaxPairs": 3, "MaxRecs": 3})],
}


def write_cfg(path, model, tier, invariants, extra):
    m = MODELS[model]
    consts = dict(COMMON)
    consts.update(m["constants"][tier])
    consts.update(extra)
    lines = [f"SPECIFICATION {m['spec']}", "CONSTANTS"]
    for k, v in consts.items():
        v = str(v)
        lines.append(f"  {k} {v}" if v.startswith("<-") else f"  {k} = {v}")
    if m.get("view"):
        lines.append(f"VIEW {m['view']}")
    for inv in list(dict.fromkeys(list(invariants) + m.get("always", []))):
        lines.append(f"INVARIANT {inv}")
    for p in m.get("properties", []):
        lines.append(f"PROPERTY {p}")
    lines.append("CHECK_DEADLOCK FALSE")
    with open(path, "w") as f:
        f.write("\n".join(lines) + "\n")


def model_check(model, tier, invariants, extra, timeout, want_dump=True):
    """Run TLC on a bounded model.  Returns dict(stats, violated, histories, out)."""
    d = tlc.scratch("mc")
    try:
        cfg = os.path.join(d, "model.cfg")
        write_cfg(cfg, model, tier, invariants, extra)
        dump = os.path.join(d, "states.dump") if want_dump else None
        out, wall, rc = tlc.run_tlc(MODELS[model]["module"], cfg, timeout=timeout, dump=dump, coverage=not want_dump)
        viol = tlc.violated_invariant(out)
        err = tlc.tlc_error(out)
        if err and not viol:
            raise MachineryError(f"TLC failed on {model}: {err}")
        st = tlc.parse_stats(out)
        if st is None:
            raise MachineryError(f"no statistics from TLC on {model}\n{out[-1500:]}")
        hists = []
        if dump and os.path.exists(dump):
            seen = set()
            for s in tlaval.dump_states(dump, want=("hist", "last", "sigs")):
                h = s.get("hist")
                if h:
                    hists.append((h, s.get("last"), s.get("sigs")))
        cex = None
        if viol:
            tr = tlaval.error_trace(out, want=("hist",))
            cex = tr[-1].get("hist") if tr else None
        if not want_dump:
            st["action_coverage"] = tlc.action_coverage(out)
        return {"model": model, "stats": st, "violated": viol, "cex": cex, "histories": hists, "wall": wall, "out": out}
    finally:
        shutil.rmtree(d, ignore_errors=True)


def maximal(hists):
    """Drop histories that are a proper prefix of another one (replaying the longer covers them)."""
    keyed = {}
    for h, last, sigs in hists:
        keyed[_freeze(h)] = (h, last, sigs)
    prefixes = set()
    for k in keyed:
        if len(k) > 1:
            prefixes.add(k[:-1])
    return [hl for k, hl in keyed.items() if k not in prefixes]


def stratified(hs, rng, limit):
    """Pick behaviours so that every coverage signature of the specification (the sequence of branch
    signatures TLC recorded in `sigs`, or the outcome when a model has none) is represented:
    round-robin over the signature classes, rarest classes first."""
    classes, single = {}, {}
    for h, last, sigs in hs:
        key = _freeze(sigs) if sigs is not None else _freeze((last, tuple(op.get("k") for op in h)))
        classes.setdefault(key, []).append(h)
        if sigs:
            single.setdefault(_freeze(sigs[-1]), []).append(h)       # the signature of the LAST operation alone
    def priority(sig):
        # a defect at ONE comparison site / branch shows only when that site is the only one involved: signatures whose
        # set of match kinds (or sequence of branches) has exactly one element come first
        best = 2
        for part in sig:
            if isinstance(part, tuple) and part and part[0] == "#set":
                best = min(best, 0 if len(part) == 2 else 1 if len(part) <= 3 else 2)
            elif isinstance(part, tuple) and part and all(isinstance(x, str) for x in part):
                best = min(best, 0 if len(part) == 1 else 1)
        return best
    out, seen = [], set()
    # 1. one behaviour for every distinct single-operation signature (which branches the operation under test took)
    for k in sorted(single, key=lambda k: (priority(k), len(single[k]), repr(k))):
        rng.shuffle(single[k])
        h = single[k][0]
        if id(h) not in seen and len(out) < limit:
            seen.add(id(h))
            out.append(h)
    # 2. then round-robin over the classes of whole signature sequences, rarest first
    order = sorted(classes, key=lambda k: (len(classes[k]), repr(k)))
    for k in order:
        rng.shuffle(classes[k])
    rnd = 0
    while len(out) < limit:
        progressed = False
        for k in order:
            if rnd < len(classes[k]):
                progressed = True
                h = classes[k][rnd]
                if id(h) not in seen:
                    seen.add(id(h))
                    out.append(h)
                    if len(out) >= limit:
                        break
        if not progressed:
            break
        rnd += 1
    chosen = {id(h) for h in out}
    covered = sum(1 for k in single if any(id(h) in chosen for h in single[k]))
    return out, len(classes), (len(single), covered)


def _freeze(v):
    if isinstance(v, dict):
        return tuple(sorted((k, _freeze(x)) for k, x in v.items()))
    if isinstance(v, (tuple, list)):
        return tuple(_freeze(x) for x in v)
    if isinstance(v, frozenset):
        return ("#set",) + tuple(sorted((_freeze(x) for x in v), key=repr))
    return v


# ---------------------------------------------------------------------------
# concretisation of the abstract alphabet (any mapping is SOUND: the trace validator
# recomputes everything on the concrete code points; the choice only affects coverage)

CONCRETE = {
    "ascii": {0: "?", 1: "a", 2: "A", 3: "b", 4: ":", 5: "/", 6: "ß", 7: "s", 8: "c", 9: "d", 58: ":", 64: "@", 100: "u/"},
    "unicode": {0: "?", 1: "ß", 2: "ẞ", 3: "é", 4: "|", 5: "/", 6: "ﬁ", 7: "f", 8: "\U0001d4b3", 9: "א",
                58: ":", 64: "@", 100: "ü#"},
    "obo": {0: "?", 1: "obo/", 2: "OBO/", 3: "GO_", 4: ":", 5: "/", 6: "Straße", 7: "s", 8: "CHEBI_", 9: "zz", 58: ":", 64: "@", 100: "w3id.org/"},
    "tokens": {0: "?", 1: "http://purl.obolibrary.org/obo/", 2: "HTTP://PURL.OBOLIBRARY.ORG/OBO/", 3: "GO_", 4: "~", 5: "/",
               6: "Straße", 7: "s", 8: "CHEBI_", 9: "zz", 58: ":", 64: "@", 100: "https://w3id.org/"},
    "case": {0: "?", 1: "ns", 2: "NS", 3: "Ns", 4: ":", 5: "/", 6: "ß", 7: "s", 8: "nS", 9: "d", 58: ":", 64: "@", 100: "u/"},
    # 'A' folds to 'a' with a CHANGE OF LENGTH: "ß".casefold() == "ss"
    "sharp": {0: "?", 1: "ss", 2: "ß", 3: "t", 4: ":", 5: "/", 6: "ẞ", 7: "s", 8: "c", 9: "d", 58: ":", 64: "@", 100: "u/"},
    "dcolon": {0: "?", 1: "x", 2: "X", 3: "y", 4: "::", 5: "/", 6: "ß", 7: "s", 8: "c", 9: "d", 58: ":", 64: "@", 100: "u_"},
}
# models whose DefaultDelim is 58 must keep ":" as the default delimiter; models using 4 as the
# delimiter pass it explicitly to the constructor, so any string works.


def conc(t, cmap):
    return "".join(cmap[c] for c in t)


def conc_rec(r, cmap):
    return {"p": conc(r["p"], cmap), "u": conc(r["u"], cmap), "ps": sorted(conc(x, cmap) for x in r["ps"]),
            "us": sorted(conc(x, cmap) for x in r["us"]), "pat": None if not r["pat"] else conc(r["pat"][0], cmap)}


def conc_hist(hist, cmap, variants=True):
    """Abstract TLC history -> concrete op list for the interpreter (plus order variants for `new`)."""
    ops = []
    for op in hist:
        k = op["k"]
        if k == "new":
            recs = [conc_rec(r, cmap) for r in op["recs"]]
            ops.append({"k": "new", "recs": recs, "delim": conc(op["delim"], cmap)})
        elif k == "add":
            # add_prefix(...) and add_record(Record(...)) are the same operation in the specification: every other add of a
            # behaviour goes through add_prefix (keyword arguments case_sensitive / merge forwarded by the library)
            nadd = sum(1 for o in ops if o["k"] == "add")
            ops.append({"k": "add", "i": op["i"], "rec": conc_rec(op["rec"], cmap), "cs": op["cs"], "mg": op["mg"],
                        "via": "prefix" if (nadd + len(hist)) % 2 else op["via"]})
        elif k == "chain":
            ops.append({"k": "chain", "is": list(op["is"]), "cs": op["cs"]})
        elif k == "sub":
            ops.append({"k": "sub", "i": op["i"], "P": sorted(conc(x, cmap) for x in op["P"])})
        elif k in ("remap_curie", "remap_uri", "rewire"):
            ops.append({"k": k, "i": op["i"], "m": [[conc(a, cmap), conc(b, cmap)] for a, b in op["m"]]})
        elif k == "load":
            ld = op["loader"]
            if ld in ("prefix_map", "reverse"):
                data = [[conc(a, cmap), conc(b, cmap)] for a, b in op["data"]]
            elif ld == "priority":
                data = [[conc(a, cmap), [conc(x, cmap) for x in b]] for a, b in op["data"]]
            elif ld == "jsonld":
                data = []
                for key, term in op["data"]:
                    if term[0] in ("str", "pdict"):
                        data.append([conc(key, cmap), [term[0], conc(term[1], cmap)]])
                    else:
                        data.append([conc(key, cmap), ["other", None]])
            ops.append({"k": "load", "loader": ld, "data": data})
        elif k == "upgrade":
            ops.append({"k": "upgrade", "data": [[conc(a, cmap), conc(b, cmap)] for a, b in op["data"]]})
        elif k == "write":
            ops.append({"k": "write", "i": op["i"], "fmt": op["fmt"], "syn": op["syn"], "expand": op["expand"]})
        elif k == "read":
            ops.append({"k": "read", "j": op["j"]})
        else:
            raise MachineryError(f"unknown abstract op {k}")
    return ops


# ---------------------------------------------------------------------------
# the interpreter: concrete op list -> events (runs in worker processes)

def run_ops(args):
    ops, seed, opts = args
    import impl
    I = impl.Interner()
    rng = random.Random(seed)
    w = impl.World(I, rng, probe_cap=opts.get("probe_cap", 24), full_n=opts.get("full_n", 5),
                   extra_chars=opts.get("extra_chars", ""), probe_inputs=opts.get("probe_inputs", True),
                   methods=opts.get("methods"))
    # strings under prefixes that LATER operations will register are probed from the start (query -> mutate -> query)
    future = []
    for op in ops:
        r = op.get("rec") if op["k"] == "add" else None
        if r:
            for u in [r["u"], *r.get("us", [])][:2]:
                future += [u + "1", u]
            for p in [r["p"], *r.get("ps", [])][:2]:
                future.append(p + ":" + "1")
    future = list(dict.fromkeys(future))[:12]
    for op in ops:
        k = op["k"]
        extra = list(op.get("extra", ())) + future
        if op.get("i") == "last":
            op = dict(op, i=len(w.convs))
            if op["i"] == 0:
                continue
        if k == "new":
            w.new(op["recs"], op.get("delim", ":"), op.get("strict", True), extra)
        elif k == "mkrec":
            w.mkrec(op["rec"])
        elif k == "add":
            if op["i"] <= len(w.convs):
                w.add(op["i"], op["rec"], op["cs"], op["mg"], op.get("via", "record"), extra)
        elif k == "chain":
            if all(i <= len(w.convs) for i in op["is"]):
                w.chain(op["is"], op["cs"], extra)
        elif k == "sub":
            if op["i"] <= len(w.convs):
                w.sub(op["i"], op["P"], extra)
        elif k in ("remap_curie", "remap_uri", "rewire"):
            if op["i"] <= len(w.convs):
                w.remap(k, op["i"], [tuple(x) for x in op["m"]], extra)
        elif k == "load":
            w.load(op["loader"], op["data"], op.get("delim", ":"), op.get("strict", True), extra, via=op.get("via", "obj"))
        elif k == "upgrade":
            w.upgrade([tuple(x) for x in op["data"]])
        elif k == "fresh":       # Converter(copy of the current records of converter i), both asked the same questions
            if op["i"] <= len(w.convs):
                w.fresh(op["i"], extra)
        elif k == "discover":
            if op["i"] <= len(w.convs):
                w.discover(op["i"], op["uris"], extra)
        elif k == "reuse":
            if op["i"] <= len(w.convs):
                w.reuse(op["i"], op.get("recs", []), extra)
        elif k == "probe":
            w.probe([i for i in op["is"] if i <= len(w.convs)], extra)
        elif k == "write":
            if op["i"] <= len(w.convs):
                w.write(op["i"], op["fmt"], op["syn"], op["expand"])
        elif k == "read":
            if op["j"] <= len(getattr(w, "files", [])) and w.files[op["j"] - 1]["ok"]:
                w.read(op["j"], extra)
        else:
            raise KeyError(k)
    w.cleanup()
    import shutil as _sh
    _sh.rmtree(os.path.join(os.environ.get("VERIF_TMP", "/verif/out"), f"load-{os.getpid()}"), ignore_errors=True)
    return {"events": w.events, "strs": I.strs}


def merge_batches(results, focus):
    """Merge per-trace string tables into one batch (re-indexing every string reference)."""
    import impl
    I = impl.Interner()
    traces = []
    for res in results:
        remap = [0] + [I(s) for s in res["strs"]]
        traces.append(_reindex(res["events"], remap))
    return impl.batch_json(I, traces, focus)


_STRKEYS = {"p", "u", "delim", "x", "id", "ddelim"}
_STRLISTKEYS = {"ps", "us", "pat", "prefixes", "prefixes_syn", "uprefixes", "uprefixes_syn", "P"}
_PAIRLISTKEYS = {"pm", "s2p", "rpm", "trie", "bimap", "rbimap", "m"}


def _reindex(ev, rm):
    """Rewrite string indexes (structure-aware: only positions known to hold string references)."""
    def rec(r):
        return {"p": rm[r["p"]], "u": rm[r["u"]], "ps": [rm[x] for x in r["ps"]], "us": [rm[x] for x in r["us"]],
                "pat": [rm[x] for x in r["pat"]]}

    def conv(c):
        if "same" in c:
            return c
        out = {"delim": rm[c["delim"]], "recs": [rec(r) for r in c["recs"]]}
        for k in ("pm", "s2p", "rpm", "trie", "pat", "bimap", "rbimap"):
            out[k] = [[rm[a], rm[b]] for a, b in c[k]]
        for k in ("prefixes", "prefixes_syn", "uprefixes", "uprefixes_syn"):
            out[k] = [rm[x] for x in c[k]]
        return out

    def outcome(m, o):
        if o[0] != "val":
            return o
        v = o[1]
        if isinstance(v, bool):
            return o
        if isinstance(v, int):
            return ["val", rm[v]]
        return ["val", [rm[x] for x in v]]

    def op(o):
        k = o["k"]
        n = dict(o)
        if k == "new":
            n["recs"] = [rec(r) for r in o["recs"]]
            n["delim"] = rm[o["delim"]]
        elif k in ("add", "mkrec"):
            n["rec"] = rec(o["rec"])
        elif k == "sub":
            n["P"] = [rm[x] for x in o["P"]]
        elif k == "discover":
            n["uris"] = [rm[x] for x in o["uris"]]
        elif k in ("remap_curie", "remap_uri", "rewire"):
            n["m"] = [[rm[a], rm[b]] for a, b in o["m"]]
        elif k == "load":
            n["delim"] = rm[o["delim"]]
            ld = o["loader"]
            if ld in ("prefix_map", "reverse"):
                n["data"] = [[rm[a], rm[b]] for a, b in o["data"]]
            elif ld == "priority":
                n["data"] = [[rm[a], [rm[x] for x in b]] for a, b in o["data"]]
            elif ld == "epm":
                n["data"] = [rec(r) for r in o["data"]]
            elif ld == "jsonld":
                n["data"] = [[rm[a], ([t[0], rm[t[1]]] if t[0] in ("str", "pdict") else ["other"])] for a, t in o["data"]]
        elif k == "upgrade":
            n["data"] = [[rm[a], rm[b]] for a, b in o["data"]]
        return n

    out = []
    for e in ev:
        n = dict(e)
        n["op"] = op(e["op"])
        o = e["out"]
        if e["op"]["k"] == "upgrade" and o[0] == "val":
            n["out"] = ["val", [rec(r) for r in o[1]]]
        elif o[0] == "raise" and len(o) >= 4:
            n["out"] = o[:3] + [[[rec(a), rec(b), rm[x]] for a, b, x in o[3]]]
        n["convs"] = [conv(c) for c in e["convs"]]
        n["pt"] = [{"i": r["i"], "x": rm[r["x"]], "b": r["b"], "f": r["f"],
                    "a": {k: outcome(k, v) for k, v in r["a"].items()}} for r in e["pt"]]
        n["ppt"] = [{"i": r["i"], "p": rm[r["p"]], "id": rm[r["id"]], "f": r["f"],
                     "a": {k: outcome(k, v) for k, v in r["a"].items()}} for r in e["ppt"]]
        out.append(n)
    return out


def execute(oplists, seed, opts, focus, workers=16):
    """Run every op list on the real code (in parallel), return the merged batch."""
    jobs = [(ops, (seed * 1000003 + k) & 0x7FFFFFFF, opts) for k, ops in enumerate(oplists)]
    if len(jobs) <= 4:
        results = [run_ops(j) for j in jobs]
    else:
        with ProcessPoolExecutor(max_workers=workers) as ex:
            results = list(ex.map(run_ops, jobs, chunksize=max(1, len(jobs) // (workers * 4))))
    return merge_batches(results, focus)


def repo_fn_calls(files, timeout=300):
    """Run some of the repository's own test files under the recording plugin and return the calls they made to
    the pure functions (is_w3c_prefix, is_w3c_curie, discover), with the results the tests saw."""
    import subprocess
    import sys
    src = os.environ.get("CURIES_SRC", "/repo/src")
    root = os.path.dirname(src)
    d = tlc.scratch("repofn")
    out = os.path.join(d, "traces.json")
    env = dict(os.environ, VERIF_REC_OUT=out, PYTHONPATH=os.path.dirname(os.path.abspath(__file__)) + os.pathsep + src, PYTHONHASHSEED="0")
    try:
        p = subprocess.run([sys.executable, "-m", "pytest", "-q", "-p", "no:cacheprovider", "-p", "pytest_world_plugin", "--timeout=600"] + list(files),
                           cwd=root, env=env, stdout=subprocess.PIPE, stderr=subprocess.STDOUT, text=True, timeout=timeout)
        if not os.path.exists(out + ".fn.json"):
            raise MachineryError("the recording plugin produced no function calls\n" + p.stdout[-1500:])
        with open(out + ".fn.json") as f:
            return json.load(f)
    finally:
        shutil.rmtree(d, ignore_errors=True)


def repo_test_traces(focus, timeout=600):
    """Run the repository's own test-suite under the recording plugin (harness/pytest_world_plugin.py)
    and return the recorded batch (one trace per test function: every converter it creates, every operation and query)."""
    import subprocess
    import sys
    src = os.environ.get("CURIES_SRC", "/repo/src")
    root = os.path.dirname(src)
    d = tlc.scratch("repotests")
    out = os.path.join(d, "traces.json")
    env = dict(os.environ, VERIF_REC_OUT=out, PYTHONPATH=os.path.dirname(os.path.abspath(__file__)) + os.pathsep + src, PYTHONHASHSEED="0")
    try:
        p = subprocess.run([sys.executable, "-m", "pytest", "-q", "-p", "no:cacheprovider", "-p", "pytest_world_plugin", "--timeout=900", "tests"],
                           cwd=root, env=env, stdout=subprocess.PIPE, stderr=subprocess.STDOUT, text=True, timeout=timeout)
        if not os.path.exists(out):
            raise MachineryError("the recording plugin produced no traces\n" + p.stdout[-1500:])
        with open(out) as f:
            batch = json.load(f)
        import re
        m = re.search(r"(\d+) passed", p.stdout)
        batch["focus"] = sorted(focus)
        return batch, int(m.group(1)) if m else 0
    finally:
        shutil.rmtree(d, ignore_errors=True)


def simulate(num, depth, seed, timeout=900, max_convs=5, system=False, size="wide"):
    """Long random behaviours of the whole converter world from `tlc -simulate` on mc/MC_Sim.tla
    (all operations on any live converter), or, with system=True, on mc/MC_System.tla (the world with the files it
    writes and reads).  Returns (histories, stats)."""
    d = tlc.scratch("sim")
    try:
        cfg = os.path.join(d, "sim.cfg")
        with open(cfg, "w") as f:
            if system:
                f.write("SPECIFICATION MCSpec\nCONSTANTS\n  FoldMap <- Fold\n  DefaultDelim <- MCDefaultDelim\n"
                        f"  MaxConvs = {max_convs}\n  MaxSteps = {depth - 1}\n  MaxFiles = 3\n  MaxAdds = 3\n  Size = \"{size}\"\n"
                        "INVARIANT Inv_StrictReads\nPROPERTY P_C14_sys\nPROPERTY P_Snapshot\nPROPERTY P_C10_sys\nCHECK_DEADLOCK FALSE\n")
            else:
                f.write("SPECIFICATION MCSpec\nCONSTANTS\n  FoldMap <- Fold\n  DefaultDelim <- MCDefaultDelim\n"
                        f"  MaxConvs = {max_convs}\n  MaxSteps = {depth - 1}\nINVARIANT Inv_Struct\nPROPERTY P_C10\nCHECK_DEADLOCK FALSE\n")
        tdir = os.path.join(d, "tr")
        os.makedirs(tdir)
        workers = 8
        out, wall, rc = tlc.run_tlc("mc/MC_System.tla" if system else "mc/MC_Sim.tla", cfg, workers=workers, timeout=timeout, simulate=f"file={tdir}/tr,num={max(1, num // workers)}",
                                    depth=depth, seed=seed)
        if tlc.violated_invariant(out):
            raise MachineryError("the simulation model violates its own invariant: " + out[-1500:])
        states = tlaval.sim_last_states(tdir, want=("hist", "last", "sigs"))
        import re
        m = re.search(r"(\d+) states checked", out)
        hs = [(s["hist"], s.get("last"), s.get("sigs")) for s in states if s.get("hist")]
        return hs, {"model": "System" if system else "Sim", "instance": "simulate", "behaviours": len(hs), "states_checked": int(m.group(1)) if m else 0,
                    "depth": depth, "wall_s": round(wall, 1)}
    finally:
        shutil.rmtree(d, ignore_errors=True)
