"""Checks for the properties outside the converter world: C14..C20."""
from __future__ import annotations

import hashlib
import json
import os
import random
import shutil
import time

import findings
import tlaval
import tlc
from tlc import MachineryError

ASSUME = [
    "TLC 1.8 and the CommunityModules Json/IOUtils operators are correct",
    "Python's str.isspace / str.isalnum / str.casefold are used to CLASSIFY the characters that occur (logged, not recomputed by TLC)",
    "bounded: model constants as listed in coverage.models; calls as listed; nothing is proved beyond what was explored",
]


def write_cfg(path, spec, constants, invariants, properties=(), view=None):
    lines = [f"SPECIFICATION {spec}", "CONSTANTS"]
    for k, v in constants.items():
        v = str(v)
        lines.append(f"  {k} {v}" if v.startswith("<-") else f"  {k} = {v}")
    if view:
        lines.append(f"VIEW {view}")
    lines += [f"INVARIANT {i}" for i in invariants]
    lines += [f"PROPERTY {i}" for i in properties]
    lines.append("CHECK_DEADLOCK FALSE")
    with open(path, "w") as f:
        f.write("\n".join(lines) + "\n")


def run_model(module, spec, constants, invariants, timeout, want=(), properties=(), view=None, dump=True):
    d = tlc.scratch("mc")
    try:
        cfg = os.path.join(d, "model.cfg")
        write_cfg(cfg, spec, constants, invariants, properties, view)
        dp = os.path.join(d, "states.dump") if dump else None
        out, wall, rc = tlc.run_tlc(module, cfg, timeout=timeout, dump=dp)
        viol = tlc.violated_invariant(out)
        err = tlc.tlc_error(out)
        if err and not viol:
            raise MachineryError(f"TLC failed on {module}: {err}")
        st = tlc.parse_stats(out)
        if st is None:
            raise MachineryError(f"no statistics from TLC on {module}\n{out[-1500:]}")
        states = list(tlaval.dump_states(dp, want=want)) if dp and os.path.exists(dp) else []
        cex = tlaval.error_trace(out, want=want) if viol else None
        return {"module": module, "constants": {k: v for k, v in constants.items() if not str(v).startswith("<-")},
                "invariants": list(invariants) + list(properties), **st, "wall_s": round(wall, 1), "violated": viol}, states, cex
    finally:
        shutil.rmtree(d, ignore_errors=True)


class Calls:
    """A batch of function calls with interned strings and Python-made character classifications."""

    def __init__(self, focus):
        import impl
        self.I = impl.Interner()
        self.calls = []
        self.meta = []       # python-side description of each call, for replay files
        self.focus = sorted(focus)

    def add(self, call, meta):
        self.calls.append(call)
        self.meta.append(meta)

    def batch(self, group=150):
        chars = set()
        for s in self.I.strs:
            chars.update(s)
        groups = [self.calls[k:k + group] for k in range(0, len(self.calls), group)]
        return {"strs": self.I.table(), "fold": self.I.fold(), "ws": sorted(ord(c) for c in chars if c.isspace()),
                "alnum": sorted(ord(c) for c in chars if c.isalnum()), "focus": self.focus, "groups": groups}, group


def replay_file(pid, family, clause, case):
    d = os.path.join(tlc.VERIF, "out", "replays")
    os.makedirs(d, exist_ok=True)
    body = {"family": family, "property": pid, "clause": list(clause), "case": case}
    h = hashlib.sha1(json.dumps(body, sort_keys=True).encode()).hexdigest()[:12]
    path = os.path.join(d, f"{pid}-{h}.json")
    with open(path, "w") as f:
        json.dump(body, f, indent=1, ensure_ascii=False)
    return path


def verdict(pid, family, fails, calls: Calls, group, tagger):
    """Turn FAIL lines into VIOLATION / KNOWN-FINDING lines.  tagger(clause) -> set of property ids."""
    lines, violations, known, other = [], 0, {}, {}
    seen_cases = set()
    for g, k, clause in fails:
        idx = (g - 1) * group + (k - 1)
        meta = calls.meta[idx]
        if pid not in tagger(clause):
            other["/".join(clause)] = other.get("/".join(clause), 0) + 1
            continue
        kf = findings.match(pid, {"clause": clause, **meta})
        if kf:
            if kf["id"] not in known:
                lines.append(f"KNOWN-FINDING: property={pid} {kf['what']}")
            known[kf["id"]] = known.get(kf["id"], 0) + 1
            continue
        key = json.dumps(meta, sort_keys=True, default=str)
        if key in seen_cases:
            continue
        seen_cases.add(key)
        violations += 1
        if violations <= 10:
            path = replay_file(pid, family, clause, meta)
            lines.append(f"VIOLATION property={pid} replay={path}   # clause {'/'.join(clause)}")
    return lines, violations, known, other


# ---------------------------------------------------------------------------
# C20 -- W3C validators

W3C_CONST = {"Letters": "<- MCLetters", "Digits": "<- MCDigits", "WS": "<- MCWS", "Underscore": 3, "Dot": 4, "Dash": 5, "Colon": 6,
             "Slash": 7, "LBracket": 12, "RBracket": 13}
W3C_REPS = [
    {1: "a", 2: "0", 3: "_", 4: ".", 5: "-", 6: ":", 7: "/", 8: "#", 9: " ", 10: "\t", 11: "\n", 12: "[", 13: "]", 14: "é", 15: "\xa0"},
    {1: "Z", 2: "9", 3: "_", 4: ".", 5: "-", 6: ":", 7: "/", 8: "?", 9: "\u2003", 10: "\x0b", 11: "\r", 12: "[", 13: "]", 14: "λ", 15: "\u2028"},
]


def check_c20(tier, seed):
    t0 = time.time()
    rng = random.Random(seed + 20)
    consts = dict(W3C_CONST)
    consts.update({"MaxLen": 4 if tier == "quick" else 6,
                   "Classes": "{1,2,3,4,5,6,7,8,9,10,11,12,13,14}" if tier == "quick" else "{1,2,3,4,5,6,7,8,9,10,11,12,13,14,15}"})
    model, states, cex = run_model("mc/MC_W3C.tla", "WSpec", consts, ["Inv_C20"], 900 if tier == "quick" else 3000, want=("str",),
                                   dump=(tier == "quick"))
    if tier != "quick":   # behaviours to replay come from the length-4 instance
        c2 = dict(consts, MaxLen=4)
        _, states, _ = run_model("mc/MC_W3C.tla", "WSpec", c2, ["Inv_C20"], 900, want=("str",))
    import impl  # noqa: F401  (sets sys.path to the implementation under test)
    from curies import w3c
    calls = Calls({"C20"})
    strings = []
    abstract = [s["str"] for s in states if "str" in s]
    if cex:
        abstract.append(cex[-1].get("str", ()))
    for a in abstract:
        strings.append("".join(W3C_REPS[0][c] for c in a))
    sample = abstract if tier != "quick" else rng.sample(abstract, min(len(abstract), 6000))
    for a in sample:
        strings.append("".join(W3C_REPS[1][c] for c in a))
    n_model = len(strings)
    alpha = "aZ09_.-:/#? \t\n\r[]éλ\xa0\u2028%+="
    for _ in range(3000 if tier == "quick" else 40000):
        n = rng.randrange(5, 14)
        strings.append("".join(rng.choice(alpha) for _ in range(n)))
    for p in ["GO", "GO\n", "_", "3dmet", "GO:", "a b", "p://x", "p:a b", ":test", "_:test", "4cdn:test", "", " ", "a:b:c", "a:/", "a://x", "//x", "/", "a:[b]",
              "smiles:CC(=O)", "pfx:a\n", "\na:b", "a\xa0b", "a:b\u2028"]:
        strings.append(p)
    # hazard characters on a random stream of their own: letters that ASCII-insensitive matching folds onto ASCII letters
    # (Kelvin sign, long s, dotless and dotted i), every kind of Unicode white space, digits outside ASCII
    hrng = random.Random(seed * 43 + 2020)
    halpha = ["a", "Z", "k", "s", "i", "0", "_", ".", "-", ":", "/", "\u212a", "\u017f", "\u0131", "\u0130", "\u00e9", "\u03ba", "\u0661", "\uff11", "\u00b2",
              " ", "\t", "\n", "\r", "\x0b", "\x0c", "\x1c", "\x1d", "\x1e", "\x1f", "\x85", "\xa0", "\u1680", "\u2000", "\u2003", "\u200a", "\u2028", "\u2029", "\u202f",
              "\u205f", "\u3000", "\u200b", "\u200c", "\ufeff"]
    for ch in halpha:
        strings += [ch, "a" + ch, ch + "a", "a" + ch + ":1", "a:" + ch, "a:1" + ch + "2", "GO:0000" + ch + "012", ch + ":1"]
    for _ in range(1500 if tier == "quick" else 20000):
        strings.append("".join(hrng.choice(halpha) for _ in range(hrng.randrange(1, 7))))
    strings = list(dict.fromkeys(strings))
    # second pass over a sample in reverse order: the answer must not depend on what was asked before
    again = rng.sample(strings, min(len(strings), 4000))
    for x in strings + list(reversed(again)):
        for f, fn in (("is_w3c_prefix", w3c.is_w3c_prefix), ("is_w3c_curie", w3c.is_w3c_curie)):
            try:
                out = fn(x)
            except Exception as e:  # noqa: BLE001
                out = "raise:" + type(e).__name__
            calls.add({"f": f, "x": calls.I(x), "out": out}, {"f": f, "x": x, "out": out})
    # what the repository's own tests asked, with the answers THEY saw
    import world
    n_repo = 0
    for c in world.repo_fn_calls(["tests/test_w3c.py"]):
        if c["f"].startswith("is_w3c"):
            calls.add({"f": c["f"], "x": calls.I(c["x"]), "out": c["out"]}, dict(c, source="repository test"))
            n_repo += 1
    batch, group = calls.batch(400)
    fails, st = tlc.validate_calls(batch, timeout=1200 if tier == "quick" else 3000)
    lines, violations, known, other = verdict("C20", "w3c", fails, calls, group, lambda c: {"C20"})
    if model["violated"] and not violations:
        raise MachineryError("TLC reports Inv_C20 violated but the implementation agrees with the declarative grammar: the specification is wrong")
    accepted = sum(1 for m in calls.meta if m["out"] is True)
    cov = {"states": model["distinct"], "transitions": model["generated"], "traces_validated_against_impl": len(calls.calls),
           "samples": [calls.meta[0], calls.meta[len(calls.meta) // 2], calls.meta[-1]],
           "evaluations": len(calls.calls), "distinct_nontrivial": accepted,
           "rule": "evaluations = validator calls on distinct strings (every class string of the model under representative set A, a sample under set B, random longer strings, hand-picked boundary strings); distinct_nontrivial = calls the implementation ACCEPTED (the rest are rejections)",
           "exhaustive": True, "models": [model], "strings_from_model": n_model, "calls_from_repository_tests": n_repo, "call_validation": st, "other_clauses_failed": other,
           "known_findings": sorted(known)}
    return {"lines": lines, "violations": violations, "coverage": cov, "wall": time.time() - t0, "assumptions": ASSUME}


# ---------------------------------------------------------------------------
# C19 -- discover

DISC_CONST = {"FoldMap": "<- Fold", "DefaultDelim": "<- MCDefaultDelim", "Alnum": "<- MCAlnum", "DefaultDelims": "<- MCDefaultDelims",
              "GithubHead": "<- MCGithub", "IssuesWord": "<- MCIssues"}
DISC_MAPS = [
    {1: "a", 2: "1", 3: "/", 4: "#", 5: "_", 6: "-", 7: "https://github.com/", 8: "issues"},
    {1: "Ab", 2: "٣", 3: "/", 4: "#", 5: "_", 6: "-", 7: "https://github.com", 8: "/x/issues/"},
    {1: "é", 2: "0", 3: "/", 4: "#", 5: "_", 6: "-", 7: "http://purl.obolibrary.org/obo", 8: "GO"},
]


def _dconc(t, m):
    return "".join(m[c] if c in m else chr(c) for c in t)


def _proj_conv_call(I, c):
    import impl
    return impl.proj_conv(I, c)


def discover_call(calls, uris, delims, cutoff, meta, pre, iterable="list", tag=None, conv_obj=None):
    """Run curies.discover on the real code and log the call."""
    import impl
    import curies
    I = calls.I
    conv = conv_obj
    if conv is None and pre is not None:
        conv = curies.Converter([impl.mk_record(r) for r in pre])
    it = {"list": lambda: list(uris), "set": lambda: set(uris), "gen": lambda: (u for u in uris), "tuple": lambda: tuple(uris)}[iterable]()
    kw = {}
    if delims is not None:
        kw["delimiters"] = list(delims)
    if cutoff is not None:
        kw["cutoff"] = cutoff
    if meta is not None:
        kw["metaprefix"] = meta
    if conv is not None:
        kw["converter"] = conv
    try:
        res = curies.discover(it, **kw)
        out = ["ok", impl.proj_conv(I, res)]
    except Exception as e:  # noqa: BLE001
        out = impl.enc_exc(e)
    call = {"f": "discover", "uris": [I(u) for u in uris], "delims": [I(d) for d in (delims or [])],
            "cutoff": [] if cutoff is None else [cutoff], "meta": I(meta if meta is not None else "ns"),
            "conv": [] if conv is None else [impl.proj_conv(I, conv)], "out": out}
    meta_d = {"f": "discover", "uris": list(uris), "delims": delims, "cutoff": cutoff, "meta": meta, "pre": pre, "iterable": iterable,
              "uri": next((u for u in uris if u.startswith("https://github.com") and "issues" in u), "")}
    calls.add(call, meta_d)


def rand_uri(rng):
    roots = ["https://E.org/", "http://e.org/Gene/", "http://e.org/gene/", "http://e.org/Zeta/", "http://e.org/alpha/", "urn:lsid:ex.org::", "http://e.org/x--", "http://purl.obolibrary.org/obo/", "https://e.org/", "http://w3.org/2000/01/rdf-schema#", "https://github.com/o/r/issues/",
             "https://github.com/o/r/pull/", "urn:x:", "http://ex.com/a_", "e", ""]
    tails = ["GO_0032571", "CHEBI_1", "label", "12", "a", "x-y", "a.b", "", "é1", "٣", "a_b_c", "1#2", "seeAlso", "7/", "A1"]
    u = rng.choice(roots) + rng.choice(tails)
    if rng.random() < 0.2:
        u += rng.choice(["/", "#", "_", "-", "?"]) + rng.choice(tails)
    return u


def check_c19(tier, seed):
    t0 = time.time()
    rng = random.Random(seed + 19)
    consts = dict(DISC_CONST)
    quick = tier == "quick"
    consts.update({"MaxURIs": 2, "MaxLen": 3, "Chars": "{1, 3, 5, 7, 8}" if quick else "{1, 2, 3, 4, 5, 7, 8}", "Tier": '"quick"' if quick else '"thorough"'})
    model, _, cex = run_model("mc/MC_Discover.tla", "DSpec", consts, ["Inv_C19", "Inv_C19order"], 900 if quick else 3400,
                              want=("uris", "args", "res"), dump=False)
    models = [model]
    # behaviours to replay come from a smaller instance (the dump of the full one is too large to parse quickly)
    c2 = dict(consts, Chars="{1, 3, 5, 8}", Tier='"quick"', MaxURIs=2, MaxLen=2 if quick else 3)
    m2, states, _ = run_model("mc/MC_Discover.tla", "DSpec", c2, ["Inv_C19"], 900, want=("uris", "args", "res"))
    models.append(m2)
    # single URIs of 3 characters: long enough for a two-character delimiter followed by an alphanumeric tail
    c3 = dict(consts, Chars="{1, 3, 5, 8}", Tier='"quick"', MaxURIs=1, MaxLen=3)
    m3, states3, _ = run_model("mc/MC_Discover.tla", "DSpec", c3, ["Inv_C19"], 900, want=("uris", "args", "res"))
    models.append(m3)
    c4 = dict(consts, Chars="{1, 2, 3}", Tier='"quick"', MaxURIs=3, MaxLen=2)
    m4, states4, _ = run_model("mc/MC_Discover.tla", "DSpec", c4, ["Inv_C19"], 900, want=("uris", "args", "res"))
    models.append(m4)
    states = states + states3 + states4
    calls = Calls({"C19"})
    done = [s for s in states if s.get("args")]
    if cex:
        done += [s for s in cex if s.get("args")]
    rng.shuffle(done)
    limit = 1500 if quick else 12000
    for k, s in enumerate(done[:limit]):
        m = DISC_MAPS[k % len(DISC_MAPS)]
        a = s["args"]
        uris = [_dconc(u, m) for u in s["uris"]]
        delims = [_dconc(d, m) for d in a["ds"]] or None
        cutoff = a["cutoff"][0] if a["cutoff"] else None
        meta = _dconc(a["meta"], m)
        pre = None
        if a["conv"]:
            pre = [{"p": _dconc(r["p"], m), "u": _dconc(r["u"], m), "ps": [], "us": [], "pat": None} for r in a["conv"][0]["recs"]]
        discover_call(calls, uris, delims, cutoff, meta, pre, iterable=["list", "set", "gen", "tuple"][k % 4])
        if len(uris) >= 2 and k % 3 == 0:
            discover_call(calls, list(reversed(uris)) + [uris[0]], delims, cutoff, meta, pre, iterable="list")
    n_model = len(calls.calls)
    for k in range(400 if quick else 6000):
        uris = [rand_uri(rng) for _ in range(rng.randrange(1, 9))]
        if k % 2:
            # clustered: several prefixes with 1..3 distinct identifiers each, so that a cutoff keeps some and drops others
            uris = []
            for root in rng.sample(["http://aaa.example/", "http://bbb.example/obo/BB_", "http://ccc.example/x#", "http://ddd.example/obo/DD_", "https://E.org/"],
                                   rng.randrange(2, 5)):
                for t in rng.sample(["1", "22", "a", "é1", "Z9", "007"], rng.randrange(1, 4)):
                    uris.append(root + t)
            rng.shuffle(uris)
        if rng.random() < 0.5:
            uris += [rng.choice(uris) for _ in range(rng.randrange(1, 4))]
        delims = rng.choice([None, None, ["/"], ["_", "/"], ["#", "/", "_", "-"], ["://"], ["/", "#"], ["::", "/"], ["--", "::", "_"], ["/", "a"], ["id=", "="]])
        cutoff = rng.choice([None, None, 0, 1, 2, 3])
        meta = rng.choice([None, "ns", "n1", "p.", "é"])
        pre = rng.choice([None, None, [{"p": "obo", "u": "http://purl.obolibrary.org/obo/", "ps": [], "us": ["https://e.org/"], "pat": None}]])
        it = rng.choice(["list", "set", "gen", "tuple"])
        discover_call(calls, uris, delims, cutoff, meta, pre, it)
        if pre is not None and k % 3 == 0:
            # the SAME converter object: discover, extend the converter so that it recognises more, discover again
            import impl as _impl
            import curies as _curies
            cobj = _curies.Converter([_impl.mk_record(r) for r in pre])
            discover_call(calls, uris, delims, cutoff, meta, pre, "list", conv_obj=cobj)
            u0 = rng.choice(uris)
            cut = max(1, len(u0) - rng.randrange(1, 4))
            try:
                cobj.add_prefix("added%d" % k, u0[:cut])
            except ValueError:
                pass
            discover_call(calls, uris, delims, cutoff, meta, "mutated", "list", conv_obj=cobj)
        sh = list(uris)
        rng.shuffle(sh)
        discover_call(calls, sh + sh[:1], delims, cutoff, meta, pre, "list")
    # hazard tails on a random stream of their own: white space at the end (URIs read line by line), digits and letters
    # outside ASCII, invisible characters, non-NFC sequences
    hrng = random.Random(seed * 41 + 1919)
    htails = ["abc\n", "abc\r\n", "abc ", "abc\t", "12\n", "e\u0301", "\u212b", "\u0661\u0662\u0663", "\u2167", "\u00b2", "a\u200cb", "a\u00adb", "\U0002f800", "\uff11\uff12", "abc", "12"]
    hroots = ["http://aaa.example/", "http://bbb.example/obo/BB_", "http://ccc.example/x#", "https://E.org/", "http://ddd.example/p=",
              # stems that nest, the next character sorting before / after the delimiter (numbering follows the whole URI prefix)
              "http://bbb.example/obo/GO_", "http://bbb.example/obo/GOCHE_", "http://e.org/go/", "http://e.org/go-plus/", "http://e.org/go/x#", "http://e.org/go/x/"]
    for k in range(60 if quick else 900):
        uris = [hrng.choice(hroots) + hrng.choice(htails) for _ in range(hrng.randrange(1, 8))]
        if hrng.random() < 0.5:
            uris += [hrng.choice(uris)]
        discover_call(calls, uris, hrng.choice([None, None, ["/"], ["#", "/", "_", "="]]), hrng.choice([None, None, 1, 2]), hrng.choice([None, "ns"]), None,
                      hrng.choice(["list", "set", "gen", "tuple"]))
    for roots in (["http://bbb.example/obo/GO_", "http://bbb.example/obo/GOCHE_"], ["http://e.org/go/", "http://e.org/go-plus/"],
                  ["http://e.org/go/x#", "http://e.org/go/x/", "http://e.org/go/x_"], ["urn:x:a:", "urn:x:a.b:", "urn:x:a"]):
        uris = [r + t for r in roots for t in ("1", "2", "abc")]
        for delims in (None, ["_", "/", "#", ":"]):
            for cutoff in (None, 2):
                discover_call(calls, uris, delims, cutoff, None, None, "list")
                discover_call(calls, list(reversed(uris)), delims, cutoff, "p", None, "tuple")
    # the discover calls the repository's own tests make, with the results THEY saw
    import world
    n_repo = 0

    def intern(v):
        if isinstance(v, str):
            return calls.I(v)
        if isinstance(v, list):
            return [intern(x) for x in v]
        if isinstance(v, dict):
            return {k: intern(x) for k, x in v.items()}
        return v
    for c in world.repo_fn_calls(["tests/test_discovery.py"]):
        if c["f"] != "discover" or len(c["uris"]) > 60:
            continue
        call = {"f": "discover", "uris": intern(c["uris"]), "delims": intern(c["delims"] or []), "cutoff": [] if c["cutoff"] is None else [c["cutoff"]],
                "meta": calls.I(c["meta"] if c["meta"] is not None else "ns"), "conv": [] if c["conv"] is None else [intern(c["conv"])],
                "out": ["ok", intern(c["result"])]}
        calls.add(call, {"f": "discover", "uris": c["uris"], "delims": c["delims"], "cutoff": c["cutoff"], "meta": c["meta"], "pre": "from the test",
                         "iterable": "as in the test", "source": "repository test", "uri": ""})
        n_repo += 1
    batch, group = calls.batch(60)
    fails, st = tlc.validate_calls(batch, timeout=1200 if quick else 3400)
    lines, violations, known, other = verdict("C19", "discover", fails, calls, group, lambda c: {"C19"})
    if model["violated"] and not violations:
        raise MachineryError("TLC reports a C19 invariant violated on the model but no recorded call reproduces it: the specification is wrong")
    nontriv = len({json.dumps([m["uris"], m["delims"], m["cutoff"], m["meta"], m["pre"]], sort_keys=True, ensure_ascii=False)
                   for m, c in zip(calls.meta, calls.calls) if c["out"][0] == "ok" and c["out"][1]["recs"]})
    cov = {"states": model["distinct"], "transitions": model["generated"], "traces_validated_against_impl": len(calls.calls),
           "samples": [calls.meta[0], calls.meta[-1]], "evaluations": len(calls.calls), "distinct_nontrivial": nontriv,
           "rule": "evaluations = discover calls on the implementation (TLC-generated argument tuples under three concretisations with list/set/generator/tuple iterables and permuted+duplicated variants, plus seeded random URI multisets); distinct_nontrivial = distinct argument tuples whose result has at least one record",
           "exhaustive": True, "models": models, "calls_from_model": n_model, "calls_from_repository_tests": n_repo, "call_validation": st, "other_clauses_failed": other,
           "known_findings": known}
    return {"lines": lines, "violations": violations, "coverage": cov, "wall": time.time() - t0, "assumptions": ASSUME + [
        "metaprefixes do not contain the default delimiter ':' for the round-trip clause (C02/C03 quantify over prefixes without the delimiter)",
        "no empty-string delimiter (str.rsplit rejects it)"]}


# ---------------------------------------------------------------------------
# C17 / C18 -- the web services

WEB_CONST = {"FoldMap": "<- Fold", "DefaultDelim": "<- MCDefaultDelim", "SlashCh": 47, "InvalidIRI": "<- MCInvalid",
             "Supported": "<- MCSupported", "SynonymOf": "<- MCSyn", "DefaultType": "<- MCDefaultType"}
SUPPORTED = ["application/sparql-results+json", "application/sparql-results+xml", "application/sparql-results+csv"]
SYNONYMS = ["application/json", "text/json", "application/xml", "text/xml", "text/csv"]
UNSUPPORTED = ["text/html", "*/*", "application/x-binary-rdf-results-table", "text/tab-separated-values"]
MC_TYPES = {1: SUPPORTED[0], 2: SUPPORTED[1], 3: SUPPORTED[2], 4: "application/json", 5: "application/xml", 6: "text/csv",
            7: "text/html", 8: "*/*"}


class WebCalls(Calls):
    def __init__(self, focus):
        super().__init__(focus)
        self.convs = []
        self.conv_objs = []

    def conv(self, recs, delim, how=None):
        """Build the converter like a user might: constructor, incrementally, or through chain (default
        delimiter only) -- chosen from the number of converters built so far, so runs are reproducible."""
        import impl
        import curies
        how = how or ["ctor", "incremental", "ctor", "chain"][len(self.convs) % 4]
        if how == "chain" and delim != ":":
            how = "incremental"
        if how == "ctor":
            c = curies.Converter([impl.mk_record(r) for r in recs], delimiter=delim)
        elif how == "incremental":
            c = curies.Converter([], delimiter=delim)
            for k, r in enumerate(recs):
                if k % 2 and r.get("pat") is None:
                    c.add_prefix(r["p"], r["u"], prefix_synonyms=r.get("ps") or None, uri_prefix_synonyms=r.get("us") or None)
                else:
                    c.add_record(impl.mk_record(r))
        else:
            parts = [curies.Converter([impl.mk_record(r)]) for r in recs]
            c = curies.chain(parts) if parts else curies.Converter([])
        self.convs.append(impl.proj_conv(self.I, c))
        self.conv_objs.append(c)
        return len(self.convs)

    def mutate(self, ci, fn):
        """Apply fn to converter ci IN PLACE and register its new projection (same object, new table entry)."""
        import impl
        c = self.conv_objs[ci - 1]
        fn(c)
        self.convs.append(impl.proj_conv(self.I, c))
        self.conv_objs.append(c)
        return len(self.convs)

    def batch(self, group=150):
        b, g = super().batch(group)
        from rdflib.term import _is_valid_uri
        chars = set()
        for s in self.I.strs:
            chars.update(s)
        b["invalid"] = sorted(ord(ch) for ch in chars if not _is_valid_uri(ch))
        b["convs"] = self.convs
        return b, g


_apps = {}


def _clients(calls, ci):
    # the apps are built once per converter OBJECT: a live service keeps serving while its converter grows
    key = (id(calls), id(calls.conv_objs[ci - 1]))
    if key not in _apps:
        import warnings
        warnings.filterwarnings("ignore")
        from curies.resolver_service import get_fastapi_app, get_flask_app
        from starlette.testclient import TestClient
        c = calls.conv_objs[ci - 1]
        _apps[key] = (get_flask_app(c).test_client(), TestClient(get_fastapi_app(c)))
    return _apps[key]


def resolve_call(calls, ci, p, ident):
    c = calls.conv_objs[ci - 1]
    path = "/" + p + c.delimiter + ident
    fl, fa = _clients(calls, ci)
    I = calls.I

    class _Err:      # a client-side failure (e.g. an unusable Location) is an observation, not a harness crash
        def __init__(self, e):
            self.status_code, self.headers = -1, {"Location": "!" + type(e).__name__, "location": "!" + type(e).__name__}
    try:
        r1 = fl.get(path)
    except Exception as e:  # noqa: BLE001
        r1 = _Err(e)
    try:
        r2 = fa.get(path, follow_redirects=False)
    except Exception as e:  # noqa: BLE001
        r2 = _Err(e)
    a1 = [r1.status_code, [I(r1.headers["Location"])] if r1.headers.get("Location") is not None else []]
    a2 = [r2.status_code, [I(r2.headers["location"])] if r2.headers.get("location") is not None else []]
    calls.add({"f": "resolve", "conv": ci, "p": I(p), "id": I(ident), "flask": a1, "fastapi": a2},
              {"f": "resolve", "delimiter": c.delimiter, "records": [[r.prefix, r.uri_prefix, r.prefix_synonyms] for r in c.records],
               "path": path, "flask": [r1.status_code, r1.headers.get("Location")], "fastapi": [r2.status_code, r2.headers.get("location")]})


SAFE = "abcXYZ019._-~"


def check_c17(tier, seed):
    t0 = time.time()
    quick = tier == "quick"
    rng = random.Random(seed + 17)
    consts = dict(WEB_CONST, MaxPath=7 if quick else 9, MaxParts=1, MaxURI=1)
    model, states, cex = run_model("mc/MC_Web.tla", "Spec", consts, ["Inv_C17"], 900 if quick else 3000, want=("st",), dump=quick)
    if not quick:
        _, states, _ = run_model("mc/MC_Web.tla", "Spec", dict(consts, MaxPath=7), ["Inv_C17"], 900, want=("st",))
    calls = WebCalls({"C17"})
    pmaps = [{1: "d", 2: "D", 47: "/", 58: ":"}, {1: "go", 2: "Go", 47: "/", 58: ":"}]
    convs = {}
    sts = [s["st"] for s in states if s.get("st", {}).get("kind") == "resolve"]
    if cex:
        sts += [s["st"] for s in cex if s.get("st", {}).get("kind") == "resolve"]
    n = 0
    for st in sts:
        delim = "".join(chr(c) for c in st["c"]["delim"])
        rest = st["path"][1:]
        dl = tuple(st["c"]["delim"])
        # split at the first delimiter; keep requests inside the quantifier of C17
        pos = next((i for i in range(len(rest)) if rest[i:i + len(dl)] == dl), None)
        if pos is None:
            continue
        p, ident = rest[:pos], rest[pos + len(dl):]
        if not p or 47 in p or not ident or ident[0] == 47 or ident[-1] == 47 or any(ident[i] == 47 and ident[i + 1] == 47 for i in range(len(ident) - 1)):
            continue
        for k, pm in enumerate(pmaps):
            if quick and k == 1 and n % 3:
                continue
            key = (delim, k)
            if key not in convs:
                recs = []
                for r in st["c"]["recs"]:
                    recs.append({"p": _dconc(r["p"], pm), "u": "http://e.org/" + _dconc(r["u"], pm).replace(" ", "%20"),
                                 "ps": sorted(_dconc(x, pm) for x in r["ps"]),
                                 "us": sorted("http://alt.e.org/" + _dconc(x, pm).replace(" ", "_") for x in r["us"]), "pat": None})
                convs[key] = calls.conv(recs, delim)
            resolve_call(calls, convs[key], _dconc(p, pm), _dconc(ident, pm))
        n += 1
    n_model = len(calls.calls)
    for _ in range(60 if quick else 600):
        delim = rng.choice([":", ":", "/"])
        names = rng.sample(["doi", "DOI", "go", "GO", "chebi", "x.y", "a-b", "n_1", "pubmed", "PMID"], rng.randrange(2, 6))
        recs, used = [], set()
        while names:
            p = names.pop()
            ps = [names.pop()] if names and rng.random() < 0.4 else []
            recs.append({"p": p, "u": f"https://{p.lower()}{len(recs)}.example.org/" + rng.choice(["", "id/", "x?id=", "obo/" + p + "_"]),
                         "ps": ps, "us": [], "pat": None})
        ci = calls.conv(recs, delim)
        known = [x for r in recs for x in (r["p"], *r["ps"])]
        for _ in range(8 if quick else 12):
            p = rng.choice(known + ["nope", "Doi", "g"])
            segs = []
            for _ in range(rng.randrange(1, 4)):
                seg = "".join(rng.choice(SAFE) for _ in range(rng.randrange(1, 6)))
                if rng.random() < 0.35:
                    seg = seg + ":" + rng.choice(SAFE) if delim == ":" else seg
                if set(seg) <= {"."}:
                    seg = "a" + seg
                segs.append(seg)
            ident = "/".join(segs)
            resolve_call(calls, ci, p, ident)
            if p in ("nope", "g") and p not in known and rng.random() < 0.5:
                # the converter learns the prefix (new record or merged synonym); the same request must now redirect
                if rng.random() < 0.5:
                    ci = calls.mutate(ci, lambda c, p=p: c.add_prefix(p, f"https://{p}.added.example/"))
                else:
                    ci = calls.mutate(ci, lambda c, p=p, r=recs[0]: c.add_prefix(r["p"], r["u"], prefix_synonyms=[p], merge=True))
                _apps.pop((id(calls), ci), None)
                known.append(p)
                resolve_call(calls, ci, p, ident)
    # LONG identifiers (real-world LSIDs, DOIs, versioned accessions): dozens of characters, the delimiter far into the path,
    # on a random stream of its own; asked of every converter built so far, the OLDEST first
    lrng = random.Random(seed * 37 + 1717)
    long_ids = ["urn:lsid:ipni.org:names:20012728-1:1.1", "10.1000/xyz123.456-789_abc~def.ghi/jkl.mno:pqr", "a" * 40 + ":b", "a" * 31 + ":b", "a" * 32 + ":b", "a" * 33 + ":b",
                "x/" + "y" * 70, "v1:" + "0123456789" * 7, "-".join(["seg"] * 20) + ":end:1.0"]
    latest = {}
    for ci_ in range(1, len(calls.conv_objs) + 1):
        latest[id(calls.conv_objs[ci_ - 1])] = ci_          # a mutated converter is logged again under a new index: use the last one
    lconvs = sorted(latest.values())
    for ci_ in (lconvs[:3] + lconvs[-3:]):
        c = calls.conv_objs[ci_ - 1]
        names = [x for r in c.records for x in (r.prefix, *r.prefix_synonyms)][:3] + ["nope"]
        for ident in lrng.sample(long_ids, 5):
            resolve_call(calls, ci_, lrng.choice(names), ident if c.delimiter == ":" else ident.replace(":", "."))
    # path-safe characters beyond letters and digits (RFC 3986 sub-delims and '@': real DOIs have parentheses, commas, semicolons)
    for ci_ in (lconvs[:2] + lconvs[-2:]):
        c = calls.conv_objs[ci_ - 1]
        names = [x for r in c.records for x in (r.prefix, *r.prefix_synonyms)][:2] + ["nope"]
        for ident in ("10.1016/S0140-6736(20)30183-5", "a,b;c=d", "x+y", "u@v", "it's", "a*b", "p!q", "$1", "a&b", "(x)/(y)"):
            resolve_call(calls, ci_, lrng.choice(names), ident)
    # a converter whose URI prefix SYNONYMS have no "//" (URNs, info: URIs), so that a CURIE can spell a registered URI prefix:
    # the request /urn:isbn:123 is the CURIE (urn, isbn:123), whatever URI the text looks like
    urn_recs = [{"p": "urn", "u": "https://example.org/urn/", "ps": ["URN"], "us": [], "pat": None},
                {"p": "isbn", "u": "https://isbn.example.org/", "ps": [], "us": ["urn:isbn:", "info:isbn/"], "pat": None},
                {"p": "pmid", "u": "https://pubmed.example.org/", "ps": ["info"], "us": ["info:pmid/"], "pat": None}]
    for how in ("ctor", "incr"):
        cu = calls.conv(urn_recs, ":", how=how)
        for p_, ident in (("urn", "isbn:0451450523"), ("URN", "isbn:0451450523"), ("info", "pmid/123"), ("info", "isbn/9"), ("isbn", "0451450523"), ("nope", "isbn:1"),
                          ("urn", "lsid:x:y"), ("pmid", "info:pmid/1")):
            resolve_call(calls, cu, p_, ident)
    batch, group = calls.batch(100)
    fails, stv = tlc.validate_calls(batch, spec="TraceWeb.tla", cfg="TraceWeb.cfg", timeout=1200 if quick else 3000)
    lines, violations, known_f, other = verdict("C17", "web", fails, calls, group, lambda c: {"C17"})
    if model["violated"] and not violations:
        raise MachineryError("TLC reports Inv_C17 violated on the model but the implementation conforms: the specification is wrong")
    redirects = sum(1 for m in calls.meta if m["flask"][0] == 302)
    cov = {"states": model["distinct"], "transitions": model["generated"], "traces_validated_against_impl": len(calls.calls),
           "samples": [calls.meta[0], calls.meta[-1]], "evaluations": 2 * len(calls.calls), "distinct_nontrivial": redirects,
           "rule": "evaluations = HTTP requests (each request goes to the Flask and to the FastAPI app in-process); distinct_nontrivial = requests answered 302 by Flask (known prefix); the rest exercise the 422 path",
           "exhaustive": True, "models": [model], "calls_from_model": n_model, "call_validation": stv, "other_clauses_failed": other,
           "known_findings": known_f}
    return {"lines": lines, "violations": violations, "coverage": cov, "wall": time.time() - t0, "assumptions": ASSUME + [
        "Flask.test_client and Starlette TestClient are faithful stand-ins for the deployed servers",
        "identifiers: non-empty segments over [A-Za-z0-9._~-] plus the delimiter, no dot-segments, no percent escapes"]}


def render_header(parts, ws):
    """RFC 7231 Accept header from structured parts; ws selects the optional-whitespace variant."""
    comma = [",", ", ", " , ", ",  "][ws % 4]
    semi = [";q=", "; q=", " ;q=", " ; q="][(ws // 4) % 4]
    out = []
    for t, q in parts:
        if q is None:
            out.append(t)
        else:
            out.append(f"{t}{semi}{q / 1000:.3f}".rstrip("0").rstrip(".") if q % 1000 else f"{t}{semi}{q // 1000}")
    return comma.join(out)


def check_c18(tier, seed):
    t0 = time.time()
    quick = tier == "quick"
    rng = random.Random(seed + 18)
    consts = dict(WEB_CONST, MaxPath=1, MaxParts=3 if quick else 4, MaxURI=5 if quick else 6)
    model, states, cex = run_model("mc/MC_Web.tla", "Spec", consts, ["Inv_C18neg", "Inv_C18map"], 900 if quick else 3000, want=("st",), dump=quick)
    if not quick:
        _, states, _ = run_model("mc/MC_Web.tla", "Spec", dict(consts, MaxParts=3, MaxURI=5), ["Inv_C18neg"], 900, want=("st",))
    import impl  # noqa: F401
    import warnings
    warnings.filterwarnings("ignore")
    from curies.mapping_service import MappingServiceGraph, MappingServiceSPARQLProcessor, get_flask_mapping_app
    from curies.mapping_service.utils import handle_header
    calls = WebCalls({"C18"})
    # --- negotiation
    hs = [s["st"]["h"] for s in states if s.get("st", {}).get("kind") == "neg"]
    if cex:
        hs += [s["st"]["h"] for s in cex if s.get("st", {}).get("kind") == "neg"]
    rng.shuffle(hs)
    # every pattern of (result type the part maps to, q) first, then the rest
    seen_pat, first, rest = set(), [], []
    for h in hs:
        pat = tuple(((t - 3 if 4 <= t <= 6 else t) if t <= 6 else 0, t > 3, q) for t, q in h)
        (rest if pat in seen_pat else first).append(h)
        seen_pat.add(pat)
    hs = first + rest
    base_recs = [{"p": "CHEBI", "u": "http://purl.obolibrary.org/obo/CHEBI_", "ps": ["chebi"],
                  "us": ["https://www.ebi.ac.uk/chebi/searchId.do?chebiId=", "http://identifiers.org/chebi/", "http://sp ace.org/chebi/"], "pat": None},
                 {"p": "GO", "u": "http://purl.obolibrary.org/obo/GO_", "ps": [], "us": [], "pat": None},
                 {"p": "size", "u": "http://example.org/größe/", "ps": [], "us": ["http://example.org/size/", "http://example.org/大きさ/"], "pat": None},
                 {"p": "OBO", "u": "http://purl.obolibrary.org/obo/", "ps": [], "us": ["http://obo.alt/\"q\"/", "http://obo.example/"], "pat": None}]
    ci0 = calls.conv(base_recs, ":")
    app0 = get_flask_mapping_app(calls.conv_objs[ci0 - 1]).test_client()
    ping = "SELECT ?o WHERE { VALUES ?s { <http://purl.obolibrary.org/obo/GO_1> } ?s <http://www.w3.org/2002/07/owl#sameAs> ?o }"

    def neg_call(parts, ws, served):
        hdr = render_header(parts, ws)
        enc = [[t, 1000 if q is None else q] for t, q in parts]
        got = handle_header(hdr)
        calls.add({"f": "negotiate", "parts": enc, "via": "handle_header", "got": got},
                  {"f": "negotiate", "header": hdr, "got": got, "via": "handle_header"})
        if served:
            r = app0.get("/sparql", query_string={"query": ping}, headers={"accept": hdr})
            ct = (r.headers.get("Content-Type") or "").split(";")[0].strip()
            calls.add({"f": "negotiate", "parts": enc, "via": "flask", "got": ct},
                      {"f": "negotiate", "header": hdr, "got": ct, "via": "flask", "status": r.status_code})
    for k, h in enumerate(hs[: (1500 if quick else 20000)]):
        parts = []
        seen = set()
        for t, q in h:
            if MC_TYPES[t] in seen:       # the SAME media type twice is outside the property (which q counts?)
                continue
            seen.add(MC_TYPES[t])
            parts.append((MC_TYPES[t], None if q == 1000 and (k + len(parts)) % 2 else q))
        if parts:
            neg_call(parts, k % 16, served=(k % 10 == 0))
    n_model = len(calls.calls)
    alltypes = SUPPORTED + SYNONYMS + UNSUPPORTED
    for k in range(300 if quick else 5000):
        ts = rng.sample(alltypes, rng.randrange(1, 6))
        parts = [(t, rng.choice([None, None, 1000, 900, 800, 500, 550, 300, 100, 1, 0])) for t in ts]
        neg_call(parts, rng.randrange(16), served=(k % 10 == 0))
    neg_call([], 0, served=True)
    # browser-like headers: many media ranges, several unsupported ones outrank the supported one
    for parts in ([("text/html", None), ("application/xhtml+xml", None), ("image/avif", None), ("image/webp", None), (SUPPORTED[0], 900), ("*/*", 800)],
                  [("text/html", None), ("application/xhtml+xml", None), ("image/avif", None), (SYNONYMS[0], 900), (SUPPORTED[-1], 800)],
                  [("image/webp", 1000), ("image/avif", 1000), ("text/html", 1000), ("text/plain", 900), (SUPPORTED[1], 900), (SUPPORTED[0], 100)],
                  [(UNSUPPORTED[0], 300), (UNSUPPORTED[-1], 300), ("text/html", 300), ("a/b", 300), ("c/d", 200), (SUPPORTED[-1], 200), (SUPPORTED[0], 100)]):
        seen_t = set()
        parts = [(t, q) for t, q in parts if not (t in seen_t or seen_t.add(t))]
        for ws in (0, 5, 11):
            neg_call(parts, ws, served=(ws == 0))
    # no Accept header at all (GET and POST), and handle_header(None): the default applies
    got = handle_header(None)
    calls.add({"f": "negotiate", "parts": [], "via": "handle_header", "got": got}, {"f": "negotiate", "header": None, "got": got, "via": "handle_header"})
    for how in ("get", "post"):
        r = app0.get("/sparql", query_string={"query": ping}) if how == "get" else app0.post("/sparql", data={"query": ping})
        ct = (r.headers.get("Content-Type") or "").split(";")[0].strip() if r.status_code == 200 else f"status {r.status_code}"
        calls.add({"f": "negotiate", "parts": [], "via": "flask", "got": ct},
                  {"f": "negotiate", "header": None, "got": ct, "via": "flask-" + how + "-without-accept-header", "status": r.status_code})
    # --- answers
    pred_ok = "http://www.w3.org/2002/07/owl#sameAs"
    pred_other = "http://www.w3.org/2004/02/skos/core#exactMatch"

    def sparql(u, pred, direction, placement):
        var_in, var_out = ("s", "o") if direction == "s" else ("o", "s")
        trip = f"?s <{pred}> ?o"
        vals = f"VALUES ?{var_in} {{ <{u}> }}"
        if placement == "inside":
            return f"SELECT ?{var_out} WHERE {{ {vals} {trip} }}", var_out
        return f"SELECT ?{var_out} WHERE {{ {trip} }} {vals}", var_out

    def map_calls(ci, u, thorough_forms):
        c = calls.conv_objs[ci - 1]
        graph = MappingServiceGraph(converter=c)
        proc = MappingServiceSPARQLProcessor(graph=graph)
        app = get_flask_mapping_app(c).test_client()
        forms = [("s", "inside", "graph"), ("o", "after", "processor"), ("s", "after", "get"), ("o", "inside", "post")]
        if thorough_forms:
            forms = [(d, pl, how) for d in "so" for pl in ("inside", "after") for how in ("graph", "processor", "get", "post")]
        for direction, placement, how in forms:
            for pred in (pred_ok, pred_other):
                if how == "graph" and placement == "after":
                    continue        # without the custom processor rdflib does not bind VALUES first (documented limitation)
                q, var = sparql(u, pred, direction, placement)
                try:
                    if how == "graph":
                        got = [str(row[0]) for row in graph.query(q)]
                    elif how == "processor":
                        got = [str(row[0]) for row in graph.query(q, processor=proc)]
                    else:
                        if how == "get":
                            r = app.get("/sparql", query_string={"query": q}, headers={"accept": "application/json"})
                        else:
                            r = app.post("/sparql", data={"query": q}, headers={"accept": "application/json"})
                        doc = json.loads(r.get_data(as_text=True))
                        got = [b[var]["value"] for b in doc["results"]["bindings"]]
                except Exception as e:  # noqa: BLE001
                    got = ["!error:" + type(e).__name__]
                calls.add({"f": "map", "conv": ci, "u": calls.I(u), "configured": pred == pred_ok, "got": [calls.I(x) for x in got]},
                          {"f": "map", "u": u, "pred": pred, "direction": direction, "placement": placement, "how": how, "got": got,
                           "records": [[r.prefix, r.uri_prefix, r.uri_prefix_synonyms] for r in c.records]})
        # a graph configured with ANOTHER predicate (given as a list / a single URIRef / a str): that one is answered, owl:sameAs is
        # now an "other predicate" and gives nothing
        from rdflib import URIRef as _URIRef
        for k, preds in enumerate(([_URIRef(pred_other)], _URIRef(pred_other), pred_other)):
            if thorough_forms or k == (len(u) % 3):
                g2 = MappingServiceGraph(converter=c, predicates=preds)
                p2 = MappingServiceSPARQLProcessor(graph=g2)
                for pred in (pred_ok, pred_other):
                    q, var = sparql(u, pred, "s", "after")
                    try:
                        got = [str(row[0]) for row in g2.query(q, processor=p2)]
                    except Exception as e:  # noqa: BLE001
                        got = ["!error:" + type(e).__name__]
                    calls.add({"f": "map", "conv": ci, "u": calls.I(u), "configured": pred == pred_other, "got": [calls.I(x) for x in got]},
                              {"f": "map", "u": u, "pred": pred, "direction": "s", "placement": "after", "how": "processor, graph configured with " + repr(preds), "got": got,
                               "records": [[r.prefix, r.uri_prefix, r.uri_prefix_synonyms] for r in c.records]})
    # the model's URIs against the model's converter (a record nested under another record's canonical URI prefix)
    mstates = [s_["st"] for s_ in states if s_.get("st", {}).get("kind") == "map" and s_["st"]["u"]]
    if cex:
        mstates += [s_["st"] for s_ in cex if s_.get("st", {}).get("kind") == "map" and s_["st"]["u"]]
    if mstates:
        mm = {1: "x", 2: "y", 3: " ", 47: "/", 58: ":"}
        mrecs = [{"p": _dconc(r["p"], mm), "u": "http://h/" + _dconc(r["u"], mm), "ps": sorted(_dconc(x, mm) for x in r["ps"]),
                  "us": sorted("http://h/" + _dconc(x, mm) for x in r["us"]), "pat": None} for r in mstates[0]["c"]["recs"]]
        mci = calls.conv(mrecs, ":", how="ctor")
        rng.shuffle(mstates)
        for st in mstates[: (60 if quick else 1500)]:
            if 3 not in st["u"]:
                map_calls(mci, "http://h/" + _dconc(st["u"], mm), False)
    us = ["http://example.org/size/42", "http://example.org/größe/7", "http://purl.obolibrary.org/obo/CHEBI_é1", "http://example.org/大きさ/東京",
          "http://purl.obolibrary.org/obo/CHEBI_1", "http://obo.example/CHEBI_1", "http://obo.example/GO_7", "http://obo.example/x", "https://www.ebi.ac.uk/chebi/searchId.do?chebiId=1", "http://identifiers.org/chebi/24867",
          "http://purl.obolibrary.org/obo/GO_0032571", "http://purl.obolibrary.org/obo/go.owl", "http://example.org/nope/1",
          "http://purl.obolibrary.org/obo/CHEBI_", "http://purl.obolibrary.org/obo/CHEBI", "http://purl.obolibrary.org/obo/x_y"]
    # invisible / format characters, non-NFC sequences, astral characters: legal in IRIs (ucschar) and in SPARQL IRIREFs
    us_hazard = ["http://example.org/size/a\u200cb", "http://example.org/size/\U0001f468\u200d\U0001f469", "http://example.org/size/a\u00adb",
                 "http://example.org/size/a\u00a0b", "http://example.org/size/e\u0301", "http://example.org/gr\u00f6\u00dfe/\u212b", "http://example.org/size/\U0002f800"]
    for u in us:
        map_calls(ci0, u, not quick)
    for u in us_hazard:
        map_calls(ci0, u, False)
    # a second service in the same process whose converter DISAGREES on the same URIs
    alt_recs = [{"p": "CHEBI", "u": "http://identifiers.org/chebi/", "ps": [], "us": ["http://purl.obolibrary.org/obo/CHEBI_"], "pat": None},
                {"p": "obo", "u": "http://obo.example/", "ps": [], "us": [], "pat": None}]
    ci1 = calls.conv(alt_recs, ":", how="ctor")
    for u in us:
        map_calls(ci1, u, False)
    # and a live service whose converter grows
    ci2 = calls.mutate(ci1, lambda c: c.add_prefix("nope", "http://example.org/nope/"))
    for u in us[:6]:
        map_calls(ci2, u, False)
    for _ in range(6 if quick else 60):
        names = rng.sample(["a", "b", "c", "dd", "e1"], rng.randrange(1, 4))
        recs = []
        for nme in names:
            us_ = [f"http://{nme}.alt{k}.org/{rng.choice(['', 'x#', 'q?id='])}" for k in range(rng.randrange(0, 3))]
            if rng.random() < 0.3:
                us_.append(f"http://{nme}.bad org/")
            recs.append({"p": nme, "u": f"http://{nme}.org/" + rng.choice(["", "ns/", nme.upper() + "_"]), "ps": [], "us": us_, "pat": None})
        ci = calls.conv(recs, ":")
        for r in recs:
            for up in [r["u"]] + [x for x in r["us"] if " " not in x][:1]:
                map_calls(ci, up + rng.choice(["1", "a/b", "x_y", ""]), False)
        map_calls(ci, "http://unknown.org/1", False)
    fastapi_ok = True
    try:
        from curies.mapping_service import get_fastapi_mapping_app
        get_fastapi_mapping_app(calls.conv_objs[ci0 - 1])
    except Exception:  # noqa: BLE001
        fastapi_ok = False
    batch, group = calls.batch(100)
    fails, stv = tlc.validate_calls(batch, spec="TraceWeb.tla", cfg="TraceWeb.cfg", timeout=1200 if quick else 3000)
    lines, violations, known_f, other = verdict("C18", "web", fails, calls, group, lambda c: {"C18"})
    if model["violated"] and not violations:
        raise MachineryError("TLC reports a C18 invariant violated on the model but the implementation conforms: the specification is wrong")
    nontriv = len({json.dumps(m, sort_keys=True) for m in calls.meta if (m["f"] == "map" and m["got"]) or (m["f"] == "negotiate" and m["got"] != SUPPORTED[1])})
    cov = {"states": model["distinct"], "transitions": model["generated"], "traces_validated_against_impl": len(calls.calls),
           "samples": [calls.meta[0], calls.meta[-1]], "evaluations": len(calls.calls), "distinct_nontrivial": nontriv,
           "rule": "evaluations = handle_header calls, served responses and SPARQL queries (graph.query with and without the custom processor, Flask GET/POST); distinct_nontrivial = distinct calls with a non-default content type or a non-empty binding set",
           "exhaustive": True, "models": [model], "calls_from_model": n_model, "call_validation": stv, "other_clauses_failed": other,
           "known_findings": known_f, "fastapi_mapping_app_constructible": fastapi_ok}
    return {"lines": lines, "violations": violations, "coverage": cov, "wall": time.time() - t0, "assumptions": ASSUME + [
        "rdflib's SPARQL engine, result serialisers and _is_valid_uri; Flask.test_client",
        "the FastAPI mapping app cannot be constructed in this sandbox (python-multipart is not installed): only Flask, graph.query and handle_header carry C18" if not fastapi_ok else "FastAPI mapping app constructible",
        "Accept headers without the same media type twice; q=0 is treated as an ordinary (lowest) weight, as the property reads"]}


# ---------------------------------------------------------------------------
# C15 -- reference value types and triples

REF_CLASSES = ["tuple", "ref", "namable", "named"]


def _ref_cls(name):
    from curies import NamableReference, NamedReference, Reference, ReferenceTuple
    return {"tuple": ReferenceTuple, "ref": Reference, "namable": NamableReference, "named": NamedReference}[name]


def _cls_name(obj):
    from curies import NamableReference, NamedReference, Reference, ReferenceTuple
    if isinstance(obj, ReferenceTuple):
        return "tuple"
    if type(obj) is NamedReference:
        return "named"
    if type(obj) is NamableReference:
        return "namable"
    if type(obj) is Reference:
        return "ref"
    return "other:" + type(obj).__name__


def enc_ref(I, obj):
    nm = getattr(obj, "name", None)
    return {"cls": _cls_name(obj), "p": I(str(obj.prefix)), "id": I(obj.identifier), "name": [] if nm is None else [I(nm)]}


def _enc_out(I, f):
    import impl
    try:
        return ["ok", enc_ref(I, f())], None
    except Exception as e:  # noqa: BLE001
        return impl.enc_exc(e), e


def build_ref(cls, p, ident, name, ctx):
    C = _ref_cls(cls)
    if cls == "tuple":
        return C(p, ident)
    data = {"prefix": p, "identifier": ident}
    if cls in ("namable", "named") and name is not None:
        data["name"] = name
    if ctx is None:
        return C(**data)
    return C.model_validate(data, context=ctx)


def from_curie_ref(cls, s, sep, name, ctx):
    C = _ref_cls(cls)
    if cls == "tuple":
        return C.from_curie(s, sep=sep)
    if cls == "ref":
        return C.from_curie(s, sep=sep, converter=ctx)
    return C.from_curie(s, name, sep=sep, converter=ctx)


def check_c15(tier, seed):
    t0 = time.time()
    quick = tier == "quick"
    rng = random.Random(seed + 15)
    model, states, cex = run_model("mc/MC_Refs.tla", "RSpec", {"FoldMap": "<- Fold", "MaxRefs": 2 if quick else 3},
                                   ["Inv_C15", "Inv_C15split", "Inv_C15ctx"], 900 if quick else 3400, want=("heap",), dump=quick)
    if not quick:
        _, states, _ = run_model("mc/MC_Refs.tla", "RSpec", {"FoldMap": "<- Fold", "MaxRefs": 2}, ["Inv_C15"], 900, want=("heap",))
    import impl
    import curies
    calls = WebCalls({"C15"})
    I = calls.I
    cmaps = [{1: "a", 2: "A", 3: "1", 4: "2", 58: ":", 9: "n", 10: "m"}, {1: "ß", 2: "ẞ", 3: "é", 4: "\U0001d4b3", 58: ":", 9: "名", 10: "m n"}]
    ctx_recs = [[{"p": "a", "u": "http://e.org/a/", "ps": ["A"], "us": [], "pat": None}],
                [{"p": "ß", "u": "http://e.org/s/", "ps": ["ẞ"], "us": [], "pat": None}],
                [{"p": "", "u": "http://e.org/default/", "ps": ["a", "é"], "us": [], "pat": None}]]      # empty canonical prefix
    ctx_idx = [calls.conv(r, ":") for r in ctx_recs]
    ctx_extra = ctx_idx[2]
    ctx_empty = calls.conv([], ":")          # a converter without records is still a context: it knows no prefix
    ctx_bar = calls.conv([{"p": "a", "u": "http://e.org/a/", "ps": ["A", "go"], "us": [], "pat": None}], "|", how="ctor")   # its own delimiter is NOT the sep of from_curie
    ctx_slash = calls.conv([{"p": "a", "u": "http://e.org/a/", "ps": ["A", "go"], "us": [], "pat": None}], "/", how="ctor")

    def add_build(cls, p, ident, name, ci):
        ctx = calls.conv_objs[ci - 1] if ci else None
        out, _ = _enc_out(I, lambda: build_ref(cls, p, ident, name, ctx))
        calls.add({"f": "build", "cls": cls, "p": I(p), "id": I(ident), "name": [] if name is None else [I(name)], "ctx": ci, "out": out},
                  {"f": "build", "cls": cls, "p": p, "id": ident, "name": name, "ctx": ci, "out": out[:3] if out[0] == "raise" else "ok"})

    def add_from_curie(cls, s, sep, name, ci):
        ctx = calls.conv_objs[ci - 1] if ci else None
        out, _ = _enc_out(I, lambda: from_curie_ref(cls, s, sep, name, ctx))
        calls.add({"f": "from_curie", "cls": cls, "s": I(s), "sep": I(sep), "name": [] if name is None else [I(name)], "ctx": ci, "out": out},
                  {"f": "from_curie", "cls": cls, "s": s, "sep": sep, "name": name, "ctx": ci, "out": out[:3] if out[0] == "raise" else "ok"})

    def add_validate(cls, s, ci):
        if cls == "tuple":
            return
        ctx = calls.conv_objs[ci - 1] if ci else None
        out, _ = _enc_out(I, lambda: _ref_cls(cls).model_validate(s, context=ctx))
        calls.add({"f": "validate_str", "cls": cls, "s": I(s), "ctx": ci, "out": out},
                  {"f": "validate_str", "cls": cls, "s": s, "ctx": ci, "out": out[:3] if out[0] == "raise" else "ok"})

    def add_object_checks(obj):
        ref = enc_ref(I, obj)
        calls.add({"f": "curie", "ref": ref, "out": I(obj.curie)}, {"f": "curie", "ref": repr(obj), "out": obj.curie})
        cls = _cls_name(obj)
        nm = getattr(obj, "name", None)
        # print -> parse
        for via in ("from_curie", "validate_str", "json"):
            try:
                if via == "from_curie":
                    back = from_curie_ref(cls, obj.curie, ":", nm, None)
                elif via == "validate_str":
                    if cls in ("tuple", "named"):
                        continue
                    back = type(obj).model_validate(obj.curie)
                else:
                    if cls == "tuple":
                        continue
                    back = type(obj).model_validate_json(obj.model_dump_json())
                out, eq = ["ok", enc_ref(I, back)], bool(back == obj and obj == back and hash(back) == hash(obj))
            except Exception as e:  # noqa: BLE001
                out, eq = impl.enc_exc(e), False
            calls.add({"f": "roundtrip", "via": via, "ref": ref, "out": out, "eq": eq},
                      {"f": "roundtrip", "via": via, "ref": repr(obj), "out": out[:3] if out[0] == "raise" else "ok", "eq": eq})
        # from_reference into the three pydantic classes, with and without a context converter
        if cls != "tuple":
            for tcls in ("ref", "namable", "named"):
                for ci in (0, ctx_extra, ctx_idx[0]):
                    ctx = calls.conv_objs[ci - 1] if ci else None
                    out, _ = _enc_out(I, lambda: _ref_cls(tcls).from_reference(obj, converter=ctx))
                    calls.add({"f": "from_reference", "cls": tcls, "ref": ref, "ctx": ci, "out": out},
                              {"f": "from_reference", "cls": tcls, "ref": repr(obj), "ctx": ci, "out": out[:3] if out[0] == "raise" else "ok"})
        # immutability
        for field in ("prefix", "identifier"):
            try:
                setattr(obj, field, "zzz")
                res = "ok"
            except Exception:  # noqa: BLE001
                res = "raise"
            calls.add({"f": "setattr", "ref": ref, "field": field, "out": res, "after": enc_ref(I, obj)},
                      {"f": "setattr", "ref": repr(obj), "field": field, "out": res})

    def add_cmp(a, b):
        try:
            lt = ["val", bool(a < b)]
        except Exception:  # noqa: BLE001
            lt = ["raise"]
        calls.add({"f": "cmp", "a": enc_ref(I, a), "b": enc_ref(I, b), "eq": bool(a == b), "hasheq": hash(a) == hash(b), "lt": lt},
                  {"f": "cmp", "a": repr(a), "b": repr(b), "eq": bool(a == b), "hasheq": hash(a) == hash(b), "lt": lt})

    heaps = [s["heap"] for s in states if s.get("heap")]
    if cex:
        heaps += [s["heap"] for s in cex if s.get("heap")]
    rng.shuffle(heaps)
    objs_seen = {}
    for k, heap in enumerate(heaps[: (400 if quick else 4000)]):
        cm = cmaps[k % 2]
        objs = []
        for r in heap:
            p, ident = _dconc(r["p"], cm), _dconc(r["id"], cm)
            name = _dconc(r["name"][0], cm) if r["name"] else None
            add_build(r["cls"], p, ident, name, 0)
            try:
                o = build_ref(r["cls"], p, ident, name, None)
            except Exception:  # noqa: BLE001
                continue
            objs.append(o)
            key = (r["cls"], p, ident, name)
            if key not in objs_seen:
                objs_seen[key] = o
                add_object_checks(o)
        for a in objs:
            for b in objs:
                add_cmp(a, b)
    # constructor matrix of the model (classes x prefixes x identifiers x names x separators x context)
    for k, cm in enumerate(cmaps):
        prefixes = ["", cm[1], cm[2], cm[3]]
        idents = ["", cm[3], ":", cm[3] + ":" + cm[4], cm[1], "a/b#c d"]
        names = [None, cm[9], cm[10]]
        for cls in REF_CLASSES:
            for p in prefixes:
                for ident in idents:
                    for name in names:
                        for ci in (0, ctx_idx[k], ctx_extra, ctx_empty):
                            add_build(cls, p, ident, name, ci)
                        for sep in (":", "::", "|"):
                            for glue in (sep, ""):
                                add_from_curie(cls, p + glue + ident, sep, name, 0)
                    add_from_curie(cls, p + ":" + ident, ":", cm[9], ctx_idx[k])
                    add_from_curie(cls, p + ":" + ident, ":", cm[9], ctx_extra)
                    add_from_curie(cls, p + ":" + ident, ":", cm[9], ctx_empty)
                    # the separator is the ARGUMENT sep, whatever the context converter's own delimiter is
                    for sep2 in ("/", "::", "|"):
                        add_from_curie(cls, p + sep2 + ident, sep2, cm[9], ctx_idx[k])
                    for sep2 in (":", "/", "|"):
                        add_from_curie(cls, p + sep2 + ident, sep2, cm[9], ctx_bar)
                    add_validate(cls, p + ":" + ident, ctx_empty)
                    add_validate(cls, p + ":" + ident, ctx_extra)
                    add_validate(cls, p + ":" + ident, 0)
                    add_validate(cls, p + ":" + ident, ctx_idx[k])
                    add_validate(cls, p + ident.replace(":", ""), 0)
                    # string validation splits at the first ':' -- the PRINTED form -- whatever the context converter's own delimiter is
                    # (wave 11, C15-w11-M2); also strings that use the converter's delimiter instead, and dictionary input
                    for cx in (ctx_bar, ctx_slash):
                        add_validate(cls, p + ":" + ident, cx)
                        add_validate(cls, p + calls.conv_objs[cx - 1].delimiter + ident, cx)
                        add_build(cls, p, ident, cm[9], cx)
    n_model = len(calls.calls)
    # random references, the full comparison matrix on small groups, triples files
    ppool = ["", "a", "A", "go", "GO", "ß", "ss", "x.y", "é", "\U0001d4b3", "chebi", "a b", "n1"]
    ipool = ["", "1", "0001", "a:b", ":", "::x", "a/b", "x#y", "é", "with space", "tab\there", 'quo"te', "comma,x", "nl\nx", "cr\rx", "ß", "1:2:3", "'", "\\"]
    npool = [None, "name", "名前", ""]
    for _ in range(60 if quick else 800):
        group = []
        for _ in range(rng.randrange(2, 5)):
            cls = rng.choice(REF_CLASSES)
            p, ident, name = rng.choice(ppool), rng.choice(ipool), rng.choice(npool)
            if cls == "named" and name is None:
                name = "n"
            try:
                o = build_ref(cls, p, ident, name, None)
            except Exception:  # noqa: BLE001
                continue
            group.append(o)
            add_object_checks(o)
        if group and rng.random() < 0.5:
            o = rng.choice(group)
            group.append(build_ref(rng.choice(["ref", "namable"]), str(o.prefix), o.identifier, None, None))
        for o in list(group):
            if hasattr(o, "model_copy") and rng.random() < 0.5:
                hash(o), o.pair, sorted([o, o])          # the source has a history of being hashed and compared
                o2 = o.model_copy(update={rng.choice(["identifier", "prefix"]): rng.choice(ipool[:6] + ppool[:6])})
                group.append(o2)
                add_object_checks(o2)
        for a in group:
            for b in group:
                add_cmp(a, b)
    # hazard strings on a random stream of their own: not in normal form C, unusual case mappings, invisible characters,
    # white space at the ends, outside the BMP
    hrng = random.Random(seed * 13 + 1515)
    hp = ["e\u0301", "\u00e9", "\u212b", "\u00c5", "\u2126", "\u212a", "K", "\u017f", "\u0131", "\u0130", "\ufb01", "kegg", "kegg.compound", "go", "go2", "a", "a-b", "a b",
          "GO ", " GO", "\U0002f800", "\u1100\u1161", "\uac00", "a\u200cb", ""]
    hi = ["e\u0301", "\u00e9", "\u212b", "\u2126", "\U0002f800", "\u1100\u1161", "o\u0302\u0323", "o\u0323\u0302", "1 ", " 1", "a\u200db", "x:e\u0301", "0" * 64, ""]
    for _ in range(40 if quick else 500):
        group = []
        for _ in range(hrng.randrange(2, 5)):
            cls = hrng.choice(REF_CLASSES)
            pfx, ident, name = hrng.choice(hp), hrng.choice(hi), hrng.choice([None, "n", "e\u0301"])
            if cls == "named" and name is None:
                name = "n"
            try:
                o = build_ref(cls, pfx, ident, name, None)
            except Exception:  # noqa: BLE001
                continue
            group.append(o)
            add_object_checks(o)
            add_from_curie(cls, pfx + ":" + ident, ":", name, 0)
            add_validate(cls, pfx + ":" + ident, 0)
        for a in group:
            for b in group:
                add_cmp(a, b)
    from curies.triples import Triple, read_triples, write_triples
    tdir = tlc.scratch("triples")
    try:
        # one LONG triples file (more rows than any plausible batch size), plain and gzip
        few = [curies.Reference(prefix=a, identifier=b) for a in ("go", "e\u0301", "chebi") for b in ("1", "2", "x:y", "\u212b")]
        for gz in (False, True):
            n_long = 5003 if gz else 10007
            rows = [[few[(7 * k + j) % len(few)] for j in range(3)] for k in range(n_long)]
            rows[5000] = [curies.Reference(prefix="marker", identifier="row5001")] * 3
            path = os.path.join(tdir, "long.tsv" + (".gz" if gz else ""))
            try:
                write_triples([Triple(subject=r[0], predicate=r[1], object=r[2]) for r in rows], path)
                back = read_triples(path)
                out = ["ok", [[enc_ref(I, t.subject), enc_ref(I, t.predicate), enc_ref(I, t.object)] for t in back]]
            except Exception as e:  # noqa: BLE001
                out = impl.enc_exc(e)
            calls.add({"f": "triples", "rows": [[I(x.curie) for x in r] for r in rows], "gz": gz, "out": out},
                      {"f": "triples", "rows": f"{n_long} rows over {len(few)} references, row 5001 marked", "gz": gz, "out": "ok" if out[0] == "ok" else out[:3]})
        for k in range(25 if quick else 300):
            rows = []
            for _ in range(rng.randrange(1, 5)):
                rows.append([curies.Reference(prefix=rng.choice([p for p in ppool]), identifier=rng.choice(ipool)) for _ in range(3)])
            gz = k % 2 == 1
            path = os.path.join(tdir, f"t{k}.tsv" + (".gz" if gz else ""))
            try:
                write_triples([Triple(subject=r[0], predicate=r[1], object=r[2]) for r in rows], path)
                back = read_triples(path)
                out = ["ok", [[enc_ref(I, t.subject), enc_ref(I, t.predicate), enc_ref(I, t.object)] for t in back]]
            except Exception as e:  # noqa: BLE001
                out = impl.enc_exc(e)
            calls.add({"f": "triples", "rows": [[I(x.curie) for x in r] for r in rows], "gz": gz, "out": out},
                      {"f": "triples", "rows": [[x.curie for x in r] for r in rows], "gz": gz, "out": "ok" if out[0] == "ok" else out[:3]})
    finally:
        shutil.rmtree(tdir, ignore_errors=True)
    batch, group = calls.batch(200)
    fails, stv = tlc.validate_calls(batch, spec="TraceRefs.tla", cfg="TraceRefs.cfg", timeout=1200 if quick else 3400)
    lines, violations, known_f, other = verdict("C15", "refs", fails, calls, group, lambda c: {"C15"})
    if model["violated"] and not violations:
        raise MachineryError("TLC reports a C15 invariant violated on the model but the implementation conforms: the specification is wrong")
    kinds = {}
    for m in calls.meta:
        kinds[m["f"]] = kinds.get(m["f"], 0) + 1
    cov = {"states": model["distinct"], "transitions": model["generated"], "traces_validated_against_impl": len(calls.calls),
           "samples": [calls.meta[0], calls.meta[n_model], calls.meta[-1]], "evaluations": len(calls.calls),
           "distinct_nontrivial": len({json.dumps(m, sort_keys=True, ensure_ascii=False) for m in calls.meta if m["f"] in ("cmp", "roundtrip", "triples")}),
           "rule": "evaluations = recorded operations on the four reference classes (constructors, from_curie with 1- and 2-character separators, string validation, JSON round-trip, ==, hash, <, attribute assignment, converter context, triples files plain and gzip); distinct_nontrivial = distinct comparison / round-trip / triples operations",
           "exhaustive": True, "models": [model], "calls_from_model": n_model, "call_kinds": kinds, "call_validation": stv,
           "other_clauses_failed": other, "known_findings": known_f}
    return {"lines": lines, "violations": violations, "coverage": cov, "wall": time.time() - t0, "assumptions": ASSUME + [
        "'<' is compared only between two pydantic references or two ReferenceTuples (mixed comparisons are not specified)",
        "hash coherence is checked as Eq => equal hashes"]}


# ---------------------------------------------------------------------------
# C16 -- bulk operations

_AT = None


def validate_bulk(batch, timeout):
    """Run spec/TraceBulk.tla.  Returns (fails, rejected, stats): rejected = [(tid, position reached)]."""
    import re
    d = tlc.scratch("bulk")
    path = os.path.join(d, "batch.json")
    with open(path, "w") as f:
        json.dump(batch, f, separators=(",", ":"))
    try:
        out, wall, rc = tlc.run_tlc("TraceBulk.tla", "TraceBulk.cfg", timeout=timeout, env={"TRACE_FILE": path}, heap="12g")
    finally:
        shutil.rmtree(d, ignore_errors=True)
    err = tlc.tlc_error(out)
    if err or tlc.violated_invariant(out):
        raise MachineryError("bulk trace validator did not run to completion: " + (err or out[-1500:]))
    fails = [(int(m.group(1)), int(m.group(2)), tuple(x.strip().strip('"') for x in m.group(3).split(",")))
             for m in tlc._FAIL.finditer(out)]
    reached = {}
    for m in re.finditer(r'<<"AT", (\d+), (\d+)>>', out):
        t, l = int(m.group(1)), int(m.group(2))
        reached[t] = max(reached.get(t, 0), l)
    rejected = []
    for t, tr in enumerate(batch["traces"], start=1):
        if reached.get(t, 0) != len(tr["events"]) + 1:
            rejected.append((t, reached.get(t, 0)))
    st = tlc.parse_stats(out) or {}
    st.update({"wall_s": round(wall, 2), "traces": len(batch["traces"])})
    return fails, rejected, st


def check_c16(tier, seed):
    import csv
    t0 = time.time()
    quick = tier == "quick"
    rng = random.Random(seed + 16)
    invs = ["Inv_Atomic", "Inv_Done", "Inv_FailPos"]
    model, states, cex = run_model("mc/MC_Bulk.tla", "MSpec", {"FoldMap": "<- Fold", "MaxRows": 2 if quick else 4}, invs,
                                   900 if quick else 3400, want=("pc", "job"), dump=quick)
    # vacuity: every fault position must be reachable in the model
    reach = []
    for k in (1, 2) if quick else (1, 2, 3):
        m2, _, _ = run_model("mc/MC_Bulk.tla", "MSpec", {"FoldMap": "<- Fold", "MaxRows": 2 if quick else 3}, [f"Never{k}"], 900, dump=False)
        if not m2["violated"]:
            raise MachineryError(f"model vacuity: a failure at row {k} is not reachable in MC_Bulk")
        reach.append(k)
    if not quick:
        _, states, _ = run_model("mc/MC_Bulk.tla", "MSpec", {"FoldMap": "<- Fold", "MaxRows": 2}, invs, 900, want=("pc", "job"))
    import impl
    import curies
    import pandas as pd

    class Rec(curies.Converter):
        _sink = None
        _depth = 0

    def _wrap(name):
        base = getattr(curies.Converter, name)

        def method(self, x, **kw):
            top = self._depth == 0 and self._sink is not None
            self._depth += 1
            out = None
            try:
                try:
                    res = base(self, x, **kw)
                    out = ("val", res) if res is not None else ("none",)
                    return res
                except Exception as e:  # noqa: BLE001
                    out = ("raise", impl.fam(e))
                    raise
            finally:
                self._depth -= 1
                if top:
                    self._sink(name, x, out)
        return method
    for nm in ("compress", "expand", "compress_or_standardize", "expand_or_standardize"):
        setattr(Rec, nm, _wrap(nm))

    I = impl.Interner()
    convs, conv_objs, traces, metas = [], [], [], []

    def add_conv(recs, delim=":"):
        c = Rec([impl.mk_record(r) for r in recs], delimiter=delim)
        convs.append(impl.proj_conv(I, c))
        conv_objs.append(c)
        return len(convs)

    tdir = tlc.scratch("bulkfiles")

    def enc_out(o):
        if o is None:
            return ["missing"]
        if o[0] == "val":
            return ["val", I(o[1])] if isinstance(o[1], str) else ["weird"]
        if o[0] == "raise":
            return ["raise", o[1]]
        return ["none"]

    def file_op(ci, kind, amb, s, p, header, col, table, sep):
        c = conv_objs[ci - 1]
        path = os.path.join(tdir, f"f{len(traces)}.tsv")
        with open(path, "w", newline="") as fh:
            csv.writer(fh, delimiter=sep or "\t").writerows(table)
        with open(path, newline="") as fh:       # the table as the csv module reads it back (e.g. a lone empty cell is an empty row)
            table = list(csv.reader(fh, delimiter=sep or "\t"))
        bytes0 = open(path, "rb").read()
        events = [{"e": "begin", "conv": ci, "kind": kind, "amb": amb, "s": s, "p": p, "header": header, "col": col + 1,
                   "table0": [[I(x) for x in row] for row in table]}]
        counter = [0]

        def sink(name, x, out):
            counter[0] += 1
            same = open(path, "rb").read() == bytes0
            events.append({"e": "row", "i": counter[0], "m": name, "x": I(x), "out": enc_out(out), "disk_same": same})
        c._sink = sink
        try:
            fn = c.file_compress if kind == "compress" else c.file_expand
            try:
                fn(path, col, sep=sep, header=header, strict=s, passthrough=p, ambiguous=amb)
                out = ["ok"]
            except Exception as e:  # noqa: BLE001
                out = ["raise", impl.fam(e), type(e).__name__]
        finally:
            c._sink = None
        bytes1 = open(path, "rb").read()
        with open(path, newline="") as fh:
            table1 = list(csv.reader(fh, delimiter=sep or "\t"))
        events.append({"e": "end", "out": out, "table1": [[I(x) for x in row] for row in table1], "bytes_same": bytes1 == bytes0})
        os.remove(path)
        traces.append({"events": events, "pd": []})
        metas.append({"op": "file_" + kind, "ambiguous": amb, "strict": s, "passthrough": p, "header": header, "column": col, "sep": sep,
                      "table": table, "records": [[r.prefix, r.uri_prefix, r.prefix_synonyms, r.uri_prefix_synonyms] for r in c.records],
                      "delimiter": c.delimiter, "out": out})

    def pd_op(ci, kind, amb, s, p, column_values, target, labels="str"):
        c = conv_objs[ci - 1]
        df = pd.DataFrame({"c0": list(column_values), "other": [f"o{k}" for k in range(len(column_values))]})
        src = "c0"
        if labels == "int":      # a header-less frame: integer labels, the source is column 1, 0 is another column
            df = pd.DataFrame({0: [f"o{k}" for k in range(len(column_values))], 1: list(column_values), 2: ["z"] * len(column_values)})
            src = 1
        elif labels == "empty":  # the empty string is a legal label too
            df = pd.DataFrame({"": [f"o{k}" for k in range(len(column_values))], "c0": list(column_values)})
        elif labels == "index":  # a frame whose index is not 0..n-1 (as after filtering or sorting)
            df.index = [3 * k + 7 for k in reversed(range(len(column_values)))]
        before = df.copy(deep=True)
        fn = getattr(c, "pd_" + kind)
        kw = {"strict": s, "passthrough": p}
        if kind in ("compress", "expand"):
            kw["ambiguous"] = amb
        try:
            if kind in ("compress", "expand"):
                fn(df, src, target_column=target, **kw)
            else:
                fn(df, column=src, target_column=target, **kw)
            out = ["ok"]
        except Exception as e:  # noqa: BLE001
            out = ["raise", impl.fam(e), type(e).__name__]
        call = {"conv": ci, "kind": kind, "amb": bool(amb), "s": s, "p": p, "col": [I(x) for x in column_values], "out": out,
                "unchanged": bool(df.equals(before)), "result": [], "others_same": True}
        if out[0] == "ok":
            tc = src if target is None else target
            res = []
            for v in df[tc].tolist():
                res.append(["none"] if v is None or (isinstance(v, float) and v != v) or pd.isna(v) else (["val", I(v)] if isinstance(v, str) else ["weird"]))
            call["result"] = res
            if tc not in df.columns:
                call["out"] = ["raise", "other", "target column missing"]
                tc = src
            keep = [col for col in before.columns if col != tc]
            call["others_same"] = bool(df[keep].equals(before[keep])) and list(df.index) == list(before.index)
        traces[-1]["pd"].append(call)
        metas[-1].setdefault("pd", []).append({"op": "pd_" + kind, "ambiguous": amb, "strict": s, "passthrough": p, "target": target, "labels": labels,
                                              "column": list(column_values), "out": out})

    cm = {1: "go", 2: "GO", 3: "http://obo.org/", 58: ":"}
    done = [s for s in states if s.get("pc") in ("done", "failed")]
    if cex:
        done += [s for s in cex if s.get("job")]
    rng.shuffle(done)
    base_ci = None
    for s_ in done[: (500 if quick else 6000)]:
        job = s_["job"]
        if base_ci is None:
            base_ci = add_conv([{"p": _dconc(r["p"], cm), "u": _dconc(r["u"], cm), "ps": [_dconc(x, cm) for x in r["ps"]],
                                 "us": [_dconc(x, cm) for x in r["us"]], "pat": None} for r in job["c"]["recs"]])
        table = [[_dconc(x, cm) for x in row] for row in (list(job["header"]) + list(job["rows"]))]
        kind = "compress" if job["meth"].startswith("compress") else "expand"
        amb = job["meth"].endswith("standardize")
        md = job["md"]
        file_op(base_ci, kind, amb, md["s"], md["p"], bool(job["header"]), job["col"] - 1, table, None)
        colvals = [row[job["col"] - 1] for row in table if len(row) >= job["col"]]
        if colvals:
            pd_op(base_ci, kind, amb, md["s"], md["p"], colvals, rng.choice([None, "new"]))
    n_model = len(traces)
    # random tables beyond the bounds
    for _ in range(60 if quick else 900):
        delim = rng.choice([":", ":", "/", "::"])
        recs = [{"p": "GO", "u": "http://purl.obolibrary.org/obo/GO_", "ps": ["go"], "us": ["https://identifiers.org/GO:"], "pat": None},
                {"p": "CHEBI", "u": "http://purl.obolibrary.org/obo/CHEBI_", "ps": [], "us": [], "pat": None},
                {"p": "OBO", "u": "http://purl.obolibrary.org/obo/", "ps": [], "us": [], "pat": None}]
        if delim == ":" and rng.random() < 0.5:
            # a CURIE prefix that looks like a URI scheme and a URI prefix that starts with a CURIE prefix: ambiguous cells
            recs += [{"p": "urn", "u": "http://urn.example/", "ps": [], "us": [], "pat": None},
                     {"p": "uuid", "u": "urn:uuid:", "ps": [], "us": ["GO:alt_"], "pat": None}]
        ci = add_conv(recs, delim)
        ncols = rng.randrange(1, 4)
        col = rng.randrange(ncols)
        sep = rng.choice([None, None, ",", ";", "|"])
        pool = ["urn:uuid:1", "GO:alt_7", "http://late.example/x1", "http://purl.obolibrary.org/obo/GO_1", "https://identifiers.org/GO:2", "http://purl.obolibrary.org/obo/x", "http://nope.org/1",
                f"GO{delim}1", f"go{delim}2", f"CHEBI{delim}x y", f"nope{delim}1", "nodelimiter", "", "a,b", "semi;colon", 'q"uote', "é ü"]
        table = []
        for _ in range(rng.randrange(1, 7)):
            table.append([rng.choice(pool) for _ in range(ncols)])
        header = rng.random() < 0.6
        if header:
            table.insert(0, [f"h{k}" for k in range(ncols)])
        if rng.random() < 0.15 and len(table) > 1:
            table[rng.randrange(1 if header else 0, len(table))] = ["short"] if col > 0 else table[-1]
        kind = rng.choice(["compress", "expand"])
        amb, s, p = rng.random() < 0.4, rng.random() < 0.4, rng.random() < 0.4
        file_op(ci, kind, amb, s, p, header, col, table, sep)
        colvals = [rng.choice(pool) for _ in range(rng.randrange(1, 6))]
        if rng.random() < 0.4:
            # bulk call, then the converter GROWS (a nested longer URI prefix / a prefix that was missing), then the same bulk call
            pd_op(ci, kind, amb, False, True, colvals + ["http://late.example/x1", "http://purl.obolibrary.org/obo/GO_1"], None)
            conv_objs[ci - 1].add_prefix("late", "http://late.example/x")
            conv_objs[ci - 1].add_prefix("GOsub", "http://purl.obolibrary.org/obo/GO_1")
            convs.append(impl.proj_conv(I, conv_objs[ci - 1]))
            conv_objs.append(conv_objs[ci - 1])
            ci = len(convs)
            file_op(ci, kind, amb, s, p, header, col, table, sep)
            pd_op(ci, kind, amb, False, True, colvals + ["http://late.example/x1", "http://purl.obolibrary.org/obo/GO_1"], None)
        for k2 in (kind, rng.choice(["standardize_prefix", "standardize_curie", "standardize_uri"])):
            vals = colvals if k2 in ("compress", "expand") else colvals + ["GO", "go", "nope"]
            lab = rng.choice(["str", "index", "int", "empty", "index"])
            tgt = {"str": [None, "new"], "index": [None, "new"], "int": [None, 0, 2, 5], "empty": [None, "", "new"]}[lab]
            pd_op(ci, k2, amb, rng.random() < 0.3, rng.random() < 0.5, vals, rng.choice(tgt), lab)
    # LONG files (more rows than any plausible batch size): all cells convert / the first failing cell far down / a short row far down
    lrecs = [{"p": "GO", "u": "http://purl.obolibrary.org/obo/GO_", "ps": ["go"], "us": [], "pat": None}]
    lci = add_conv(lrecs, ":")
    nlong = 1100 if quick else 2600
    for fail_at, short_at in ((None, None), (nlong - 40, None), (None, nlong - 25)):
        table = [["curie", "n"]] + [[f"GO:{k:07d}", str(k)] for k in range(nlong)]
        if fail_at is not None:
            table[fail_at + 1][0] = "unknownprefix:1"
        if short_at is not None:
            table[short_at + 1] = []
        file_op(lci, "expand", False, True, False, True, 0, table, None)
    pd_op(lci, "expand", False, False, False, [f"GO:{k:07d}" for k in range(300)] + ["nope:1"], "new", "index")
    shutil.rmtree(tdir, ignore_errors=True)
    batch = {"strs": I.table(), "convs": convs, "traces": traces}
    fails, rejected, stv = validate_bulk(batch, 1200 if quick else 3400)
    lines, violations = [], 0
    bad = {}
    for t, l, clause in fails:
        bad.setdefault(t, []).append((l, clause))
    for t, l in rejected:
        bad.setdefault(t, []).append((l, ("bulk.step_not_allowed_by_machine",)))
    # clauses that only say "the code is not the step machine of the specification" (e.g. another conversion order)
    # are not statements of C16: alone they mean the specification misrepresents the code (exit 2)
    CONF_ONLY = {"bulk.row_order", "bulk.row_input", "bulk.step_not_allowed_by_machine"}
    conf_only = [t for t in bad if all(c[0] in CONF_ONLY for _, c in bad[t])]
    for t in sorted(bad):
        if t in conf_only:
            continue
        violations += 1
        if violations <= 10:
            l, clause = bad[t][0]
            path = replay_file("C16", "bulk", clause, dict(metas[t - 1], event=l, all_clauses=sorted({"/".join(c) for _, c in bad[t]})))
            lines.append(f"VIOLATION property=C16 replay={path}   # clauses {sorted({'/'.join(c) for _, c in bad[t]})}")
    if conf_only and not violations:
        t = conf_only[0]
        raise MachineryError(f"{len(conf_only)} recorded file operations are not behaviours of the step machine although no clause of C16 fails "
                             f"(first: {json.dumps(metas[t - 1])[:400]}; clauses {sorted({'/'.join(c) for _, c in bad[t]})}): the specification misrepresents the code")
    if model["violated"] and not violations:
        raise MachineryError("TLC reports a C16 invariant violated on the model but the implementation conforms: the specification is wrong")
    import checks_world
    proof = checks_world.tlaps_proof("C16")
    n_raise = sum(1 for m in metas if m["out"][0] == "raise")
    n_rows = sum(1 for tr in traces for e in tr["events"] if e["e"] == "row")
    n_pd = sum(len(tr["pd"]) for tr in traces)
    cov = {"states": model["distinct"], "transitions": model["generated"], "traces_validated_against_impl": len(traces),
           "samples": [metas[0], metas[-1]], "evaluations": n_rows + n_pd, "distinct_nontrivial": n_raise,
           "rule": "evaluations = recorded cell conversions of file operations (each with the file's bytes compared at that moment) plus data-frame operations; distinct_nontrivial = file operations that RAISED (atomicity clause exercised); the rest exercise the element-wise clause",
           "exhaustive": True, "models": [model], "fault_positions_reachable_in_model": reach, "traces_from_model": n_model,
           "file_ops_raised": n_raise, "pd_ops": n_pd, "trace_validation": stv, "tlaps_proof": proof}
    return {"lines": lines, "violations": violations, "coverage": cov, "wall": time.time() - t0, "assumptions": ASSUME + [
        "cells contain no control characters (the csv dialect is the module default)",
        "the recording subclass of Converter only observes: it calls the original method and logs (input, outcome, file bytes unchanged?) at top-level calls",
        "pandas .map / DataFrame.equals as the observation of data frames"]}


# ---------------------------------------------------------------------------
# C14 -- written contexts read back to the same converter

HAZ_EPM = ["a", "B", "é", "ß", "\U0001d4b3", "‏", " ", "\t", "\n", "\\", '"', "'", "<", ">", "{", "}", "/", ":", "#", "@", ",", "\x00", "\x7f", " "]
HAZ_JSONLD = ["a", "B", "é", "\U0001d4b3", " ", "\\", '"', "'", "<", "/", ":", "#", ",", "\t", "@"]
HAZ_TTL = ["a", "B", "é", "ß", "\U0001d4b3", " ", "\\", "'", "/", ":", "#", "@", ",", "{", "}", "|", "^", "`", "?", "=", "&", "%", ";", "*", "$", " "]
PATTERNS = [r"^\d{7}$", r"^[A-Z]+\\\d+$", r"\w+\.\d", r"^CHEBI:\d+$", "a\\b", "\\\\", r"^(\d|\w)'+$"]


def _hz(rng, alpha, n=(1, 5), must=""):
    k = rng.randrange(*n)
    s = "".join(rng.choice(alpha) for _ in range(k))
    return must + s


def check_c14(tier, seed):
    import csv
    t0 = time.time()
    quick = tier == "quick"
    rng = random.Random(seed + 14)
    model, states, cex = run_model("mc/MC_IO.tla", "ISpec", {"FoldMap": "<- Fold", "DefaultDelim": "<- MCDefaultDelim", "MaxRecs": 2},
                                   ["Inv_C14"], 900, want=("conv", "op"), dump=True)
    import impl
    import curies
    calls = WebCalls({"C14"})
    I = calls.I
    tdir = tlc.scratch("io")

    def roundtrip(ci, fmt, syn, expand):
        c = calls.conv_objs[ci - 1]
        path = os.path.join(tdir, f"f{len(calls.calls)}." + {"epm": "json", "jsonld": "json", "shacl": "ttl", "tsv": "tsv"}[fmt])
        try:
            if fmt == "epm":
                curies.write_extended_prefix_map(c, path)
                back = curies.load_extended_prefix_map(path, delimiter=c.delimiter)
            elif fmt == "jsonld":
                curies.write_jsonld_context(c, path, include_synonyms=syn, expand=expand)
                back = curies.load_jsonld_context(path, strict=not syn)
            elif fmt == "shacl":
                curies.write_shacl(c, path, include_synonyms=syn)
                back = curies.load_shacl(path, strict=not syn)
            else:
                curies.write_tsv(c, path)
                with open(path, newline="") as fh:
                    rows = list(csv.reader(fh, delimiter="\t"))
                back = curies.load_prefix_map({r[0]: r[1] for r in rows[1:]})
            out = ["ok", impl.proj_conv(I, back)]
        except Exception as e:  # noqa: BLE001
            out = impl.enc_exc(e)
        finally:
            if os.path.exists(path):
                os.remove(path)
        calls.add({"f": "roundtrip", "fmt": fmt, "syn": bool(syn), "expand": bool(expand), "conv": ci, "back": out},
                  {"f": "roundtrip", "fmt": fmt, "include_synonyms": bool(syn), "expand": bool(expand),
                   "records": [[r.prefix, r.uri_prefix, r.prefix_synonyms, r.uri_prefix_synonyms, r.pattern] for r in c.records],
                   "back": "ok" if out[0] == "ok" else out[:3]})

    # behaviours of the model: hazard classes -> representatives allowed by each format's quantifier
    reps = {"epm": [{1: "a", 2: "\\", 3: "é", 4: " "}, {1: "x\n", 2: '"', 3: "\U0001d4b3", 4: "\t"}],
            "jsonld": [{1: "a", 2: "\\", 3: "é", 4: " "}, {1: "b", 2: '"', 3: "ü", 4: "\t"}],
            "shacl": [{1: "a", 2: "\\", 3: "é", 4: " "}, {1: "b'", 2: "\\", 3: "\U0001d4b3", 4: " "}],
            "tsv": [{1: "a", 2: "\\", 3: "é", 4: " "}, {1: "b,", 2: "\\", 3: "ß", 4: "'"}]}
    done = [s_ for s_ in states if s_.get("op")]
    if cex:
        done += [s_ for s_ in cex if s_.get("op")]
    rng.shuffle(done)
    cache = {}
    for k, s_ in enumerate(done[: (700 if quick else 8000)]):
        op = s_["op"]
        cm = dict(reps[op["fmt"]][k % 2])
        cm[58] = ":"
        key = (world_freeze(s_["conv"]), op["fmt"], k % 2)
        if key not in cache:
            recs = [{"p": _dconc(r["p"], cm), "u": _dconc(r["u"], cm), "ps": sorted(_dconc(x, cm) for x in r["ps"]), "us": [],
                     "pat": (_dconc(r["pat"][0], cm) if r["pat"] else None)} for r in s_["conv"]]
            try:
                cache[key] = calls.conv(recs, ":")
            except Exception:  # noqa: BLE001  (two abstract strings may concretise to clashing ones)
                cache[key] = None
        if cache[key]:
            roundtrip(cache[key], op["fmt"], op["syn"], op["expand"])
    n_model = len(calls.calls)
    # random converters over the hazard alphabets of each format's quantifier (pass 0); pass 1, on a random stream of its own:
    # the same with atoms that are not in Unicode normal form C / have unusual case mappings / are invisible, and with
    # LONG patterns (dozens of backslashes, as real-world regular expressions have)
    main_rng = rng
    NFC_ATOMS = ["e\u0301", "\u212b", "\u2126", "\u212a", "o\u0302\u0323", "o\u0323\u0302", "\u1100\u1161", "\U0002f800", "\u017f", "\u0131", "\u200c", "\u00ad"]
    LONG_PATTERNS = [r"^\d{4}-\d{2}-\d{2}T\d{2}:\d{2}:\d{2}(\.\d+)?(Z|[+\-]\d{2}:\d{2})/\d{4}-\d{2}-\d{2}T\d{2}:\d{2}:\d{2}(\.\d+)?(Z|[+\-]\d{2}:\d{2})$" + r"|\w\s\S\W\b" * 4,
                     "\\" * 40, r"^(\d+\.){12}\d+$" + r"\\" * 3]
    for hz_pass in (0, 1):
      rng = main_rng if hz_pass == 0 else random.Random(seed * 29 + 1414)
      for _ in range((120 if quick else 2500) if hz_pass == 0 else (60 if quick else 800)):
            fmt = rng.choice(["epm", "jsonld", "shacl", "tsv"])
            alpha = {"epm": HAZ_EPM, "jsonld": HAZ_JSONLD, "shacl": HAZ_TTL, "tsv": HAZ_TTL}[fmt] + ([a for a in NFC_ATOMS if fmt in ("epm", "jsonld") or a.isprintable()] if hz_pass else [])
            recs, P, U = [], set(), set()
            for _ in range(rng.randrange(1, 5)):
                p = _hz(rng, alpha if fmt != "jsonld" else [a for a in alpha if a != "@"], must=("p" if fmt == "jsonld" else ""))
                u = _hz(rng, alpha, (1, 8))
                ps = sorted({_hz(rng, alpha if fmt != "jsonld" else [a for a in alpha if a != "@"], must=("s" if fmt == "jsonld" else "")) for _ in range(rng.randrange(0, 3))} - {p})
                us = sorted({_hz(rng, alpha, (1, 8)) for _ in range(rng.randrange(0, 3))} - {u})
                pat = rng.choice((PATTERNS if not hz_pass else LONG_PATTERNS + PATTERNS[:2]) + [None, None]) if fmt in ("epm", "shacl") else None
                if fmt == "epm" and rng.random() < 0.3:
                    pat = _hz(rng, alpha, (1, 6))
                ap, au = {p, *ps}, {u, *us}
                if ap & P or au & U:
                    continue
                P |= ap
                U |= au
                recs.append({"p": p, "u": u, "ps": ps, "us": us, "pat": pat})
            if not recs:
                continue
            ci = calls.conv(recs, ":")
            for syn in (False, True):
                for expand in ((False, True) if fmt == "jsonld" else (False,)):
                    if fmt in ("epm", "tsv") and syn:
                        continue
                    roundtrip(ci, fmt, syn, expand)
            if fmt in ("epm", "shacl") and rng.random() < 0.5:
                # a sibling converter written later in the same process: same records, other patterns / synonym lists that
                # collide when joined with commas
                sib = []
                for r in recs:
                    r2 = dict(r)
                    r2["pat"] = None if r["pat"] else rng.choice(PATTERNS)
                    if len(r["ps"]) >= 2 and fmt == "epm":
                        r2["ps"] = [",".join(r["ps"])]
                    sib.append(r2)
                try:
                    ci2 = calls.conv(sib, ":")
                    roundtrip(ci2, fmt, False, False)
                except Exception:  # noqa: BLE001
                    pass
    rng = main_rng
    shutil.rmtree(tdir, ignore_errors=True)
    batch, group = calls.batch(60)
    fails, stv = tlc.validate_calls(batch, spec="TraceIO.tla", cfg="TraceIO.cfg", timeout=1200 if quick else 3400)
    lines, violations, known_f, other = verdict("C14", "io", fails, calls, group, lambda c: {"C14"})
    if model["violated"] and not violations:
        raise MachineryError("TLC reports Inv_C14 violated on the model but the implementation conforms: the specification is wrong")
    # the same property along HISTORIES (spec/System.tla): arbitrary live converters written, changed, read back
    import checks_world
    sysr = checks_world.system_part("C14", tier, seed)
    lines += sysr["lines"]
    violations += sysr["violations"]
    known_f = list(known_f) + [k["id"] for k in sysr["known"]]
    per = {}
    for m in calls.meta:
        per[m["fmt"]] = per.get(m["fmt"], 0) + 1
    hazard = sum(1 for m in calls.meta if any(ch in json.dumps(m["records"], ensure_ascii=False) for ch in ("\\\\", "é", "\U0001d4b3")))
    cov = {"states": model["distinct"] + sum(m["distinct"] for m in sysr["coverage"]["models"]),
           "transitions": model["generated"] + sum(m["generated"] for m in sysr["coverage"]["models"]),
           "traces_validated_against_impl": len(calls.calls) + sysr["coverage"]["traces"],
           "samples": [calls.meta[0], calls.meta[-1]], "evaluations": len(calls.calls), "distinct_nontrivial": hazard,
           "rule": "evaluations = write-then-read round trips through the real writers and readers; distinct_nontrivial = round trips whose converter contains a backslash or a non-ASCII character",
           "exhaustive": True, "models": [model], "calls_from_model": n_model, "per_format": per, "call_validation": stv,
           "histories_with_files": sysr["coverage"],
           "other_clauses_failed": other, "known_findings": known_f,
           "explanation": "the specification decides the round trip at the level of what a file denotes; byte-level escaping is explored by the hazard-alphabet sweep, not proved"}
    return {"lines": lines, "violations": violations, "coverage": cov, "wall": time.time() - t0, "assumptions": ASSUME + [
        "JSON, Turtle (rdflib) and csv parsers are the readers named by the property; UTF-8 locale",
        "domains per format as in the property's quantifier: JSON-LD prefixes non-empty and not starting with '@'; SHACL/TSV strings without double quote, angle brackets and control characters; SHACL on non-empty converters; patterns are non-empty",
        "synonym output is read back non-strictly (strict loading of it is documented as undefined)"]}


def world_freeze(v):
    import world
    return world._freeze(v)


CHECKS = {"C20": check_c20, "C19": check_c19, "C17": check_c17, "C18": check_c18, "C15": check_c15, "C16": check_c16, "C14": check_c14}


def check(pid, tier, seed):
    if pid not in CHECKS:
        raise MachineryError(f"no check registered for {pid}")
    return CHECKS[pid](tier, seed)
