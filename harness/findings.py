"""Known findings: genuine defects recorded rather than repaired (see DESIGN.md).

The file /verif/known_findings.json is read-only at run time.  An entry with status "known"
names a matcher (a predicate over the failing case); a failure matching it is reported as
KNOWN-FINDING and does not fail the check.  Entries with status "fixed" are documentation and
match nothing."""
from __future__ import annotations

import json
import os

PATH = os.path.join(os.path.dirname(os.path.dirname(os.path.abspath(__file__))), "known_findings.json")


def _github_issue_uri(case):
    # only the clause that states the round-trip for GitHub issue URIs is covered; any other
    # failing clause of the same call is still a violation
    uri = case.get("uri", "")
    clause = tuple(case.get("clause", ()))
    return clause == ("mon.C19.github",) and uri.startswith("https://github.com") and "issues" in uri


MATCHERS = {
    "discover_github_issue_uri": _github_issue_uri,
}


def load():
    if not os.path.exists(PATH):
        return []
    with open(PATH) as f:
        return json.load(f)


def match(pid, case):
    """Return the known finding (dict) the failing case falls under, or None."""
    for e in load():
        if e.get("status") != "known" or e.get("property") != pid:
            continue
        fn = MATCHERS.get(e.get("matcher"))
        if fn and fn(case):
            return e
    return None
