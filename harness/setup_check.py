"""vcheck setup: verify the tool chain and parse every specification module (nothing is built)."""
import glob
import os
import subprocess
import sys

VERIF = os.path.dirname(os.path.dirname(os.path.abspath(__file__)))
CP = "/opt/veriftools/tla/tla2tools.jar:/opt/veriftools/tla/CommunityModules-deps.jar"


def main():
    ok = True
    os.makedirs(os.path.join(VERIF, "out"), exist_ok=True)
    os.makedirs(os.path.join(VERIF, "evidence"), exist_ok=True)
    try:
        src = os.environ.get("CURIES_SRC", "/repo/src")
        sys.path.insert(0, src)
        import curies  # noqa: F401
        import pydantic  # noqa: F401
        import rdflib  # noqa: F401
        print("python imports ok:", curies.__file__)
    except Exception as e:  # noqa: BLE001
        print("IMPORT FAILURE", e)
        ok = False
    mods = sorted(glob.glob(os.path.join(VERIF, "spec", "*.tla")) + glob.glob(os.path.join(VERIF, "spec", "mc", "*.tla")))
    import shutil
    import tempfile
    os.makedirs(os.path.join(VERIF, "out"), exist_ok=True)
    jtmp = tempfile.mkdtemp(prefix="sany-", dir=os.path.join(VERIF, "out"))       # nothing stays behind under /tmp
    for m in mods:
        cwd = os.path.join(VERIF, "spec")
        p = subprocess.run(["java", f"-Djava.io.tmpdir={jtmp}", "-cp", CP, "tla2sany.SANY", os.path.relpath(m, cwd)], cwd=cwd, stdout=subprocess.PIPE,
                           stderr=subprocess.STDOUT, text=True, timeout=120)
        bad = ("Error" in p.stdout and "*** Errors" in p.stdout) or "Fatal" in p.stdout or "Abort" in p.stdout or p.returncode != 0
        print(("PARSE FAIL " if bad else "parsed ") + os.path.relpath(m, VERIF))
        if bad:
            print(p.stdout[-2000:])
            ok = False
    shutil.rmtree(jtmp, ignore_errors=True)
    # the proof modules are checked by tlapm itself (the checks of C05, C09, C12, C16 run it); here only: are the tools there
    for tool in ("tlapm", "apalache-mc"):
        print(f"{tool}: " + (shutil.which(tool) or "NOT FOUND (the checks record 'not run' and do not rely on it)"))
    for m in sorted(glob.glob(os.path.join(VERIF, "spec", "tlaps", "*.tla"))):
        print("proof module " + os.path.relpath(m, VERIF))
    return 0 if ok else 2
